//! C16, glue half (bounded over programs): every generated literal (src/gen.rs, rewritten on every run by
//! tools/gen_c16.py) is expanded by the REAL dna!/iupac!/kmer! macros when this crate is compiled against the
//! working tree, and compared with runtime parsing of the same string.
use bio_seq::prelude::*;
use std::hash::{Hash, Hasher};
mod gen;

fn h<T: Hash + ?Sized>(t: &T) -> u64 {
    let mut s = std::collections::hash_map::DefaultHasher::new();
    t.hash(&mut s);
    s.finish()
}
pub struct Out { pub n: usize, pub fails: Vec<String> }
impl Out {
    pub fn seq<C: Codec>(&mut self, lit: &str, got: &'static SeqSlice<C>) {
        self.n += 1;
        match Seq::<C>::try_from(lit) {
            Ok(want) => {
                let ok = *got == want && want == *got && got.len() == want.len() && got.len() == lit.len() && got.to_string() == want.to_string()
                    && h(got) == h(&want) && (0..want.len()).all(|i| got.nth(i) == want.nth(i)) && got.to_owned().into_raw() == want.into_raw();
                if !ok && self.fails.len() < 20 { self.fails.push(format!("literal {:?}: macro gives {} runtime parsing gives {}", lit, got, want)); }
            }
            Err(e) => if self.fails.len() < 20 { self.fails.push(format!("literal {:?} compiled but runtime parsing rejects it: {:?}", lit, e)); },
        }
    }
    pub fn kmer<const K: usize>(&mut self, lit: &str, got: Kmer<Dna, K>) {
        self.n += 1;
        match Kmer::<Dna, K>::from_str(lit) {
            Ok(want) => if !(got == want && got.to_string() == lit && h(&got) == h(&want) && got == Seq::<Dna>::try_from(lit).unwrap()) && self.fails.len() < 20 {
                self.fails.push(format!("kmer literal {:?}: macro gives {} runtime gives {}", lit, got, want));
            },
            Err(e) => if self.fails.len() < 20 { self.fails.push(format!("kmer literal {:?}: runtime rejects {:?}", lit, e)); },
        }
    }
}
impl Out {
    /// kmer!(lit, storage)
    pub fn kmer_s<const K: usize, S: bio_seq::kmer::KmerStorage>(&mut self, lit: &str, got: Kmer<Dna, K, S>)
    where Kmer<Dna, K, S>: core::fmt::Display + PartialEq + Hash + PartialEq<SeqSlice<Dna>> {
        self.n += 1;
        match Kmer::<Dna, K, S>::from_str(lit) {
            Ok(want) => if !(got == want && got.to_string() == lit && h(&got) == h(&want) && got.len() == K && got == Seq::<Dna>::try_from(lit).unwrap()[..]) && self.fails.len() < 20 {
                self.fails.push(format!("kmer literal {:?} on {}: macro gives {} runtime gives {}", lit, core::any::type_name::<S>(), got, want));
            },
            Err(e) => if self.fails.len() < 20 { self.fails.push(format!("kmer literal {:?}: runtime rejects {:?}", lit, e)); },
        }
    }
}
fn main() {
    let mut o = Out { n: 0, fails: vec![] };
    gen::run(&mut o);
    let f: Vec<String> = o.fails.iter().map(|x| format!("{:?}", x)).collect();
    println!("{{\"cases\":{},\"failures\":[{}]}}", o.n, f.join(","));
}
