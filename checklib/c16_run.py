"""C16 glue half: generated literals through the real dna!/iupac!/kmer! macros (bounded over programs)."""
import json
import os
import shutil
import subprocess

import kani_run
from c17_run import cargo_env

HERE = os.path.dirname(os.path.abspath(__file__))
ROOT = os.path.dirname(HERE)
WORK = os.path.join(ROOT, 'work')
CRATE = os.path.join(ROOT, 'c16')


def run(pid, tier, seed, repo='/repo'):
    failures, undecided = [], []
    ev = dict(literals=0, native=[], rejects=[], samples=[])
    kani_run.sync_lock(CRATE, repo)
    g = subprocess.run(['python3', os.path.join(ROOT, 'tools', 'gen_c16.py'), str(seed), tier, os.path.join(CRATE, 'src')], capture_output=True, text=True)
    if g.returncode != 0:
        return failures, ['C16 generator failed: ' + g.stderr[-400:]], ev
    meta = json.load(open(os.path.join(CRATE, 'src', 'cases.json')))
    ev['literals'] = meta['n']
    ev['samples'] = ['%s!("%s")' % (k, s[:60]) for k, s in meta['cases']]
    for profile in (['debug', 'release'] if tier == 'thorough' else ['debug']):
        p = subprocess.run(['cargo', 'build', '--offline'], cwd=CRATE, env=cargo_env(profile, 'target-c16'), capture_output=True, text=True, timeout=1800)
        if p.returncode != 0:
            # every generated literal is accepted by the runtime parser, so it must compile: an error located in the generated
            # literal program (src/gen.rs) is a violation; an error anywhere else (the harness's own code, a changed API) is not
            # a verdict about the property
            import re as _re
            errs = _re.findall(r'(error[^\n]*)\n\s*--> (src/\w+\.rs):(\d+)', p.stderr)
            in_gen = [e for e in errs if e[1] == 'src/gen.rs']
            if in_gen:
                gl = open(os.path.join(CRATE, 'src', 'gen.rs')).read().split('\n')
                shown = '\n'.join('%s\n    %s' % (e[0], gl[int(e[2]) - 1].strip()[:200]) for e in in_gen[:4])
                failures.append(dict(property=pid, source='c16-compile', profile=profile, obligation='c16::compile[%s]#a literal the runtime parser accepts compiles' % profile,
                                     what='a valid literal does not compile', input=shown, verifier_output=p.stderr[-1500:]))
            else:
                undecided.append('c16 crate does not build (%s), error outside the generated literals: %s' % (profile, '; '.join('%s @ %s:%s' % e for e in errs[:3]) or p.stderr[-400:]))
            continue
        binp = os.path.join(cargo_env(profile, 'target-c16')['CARGO_TARGET_DIR'], 'debug', 'bioseq-c16')
        r = subprocess.run([binp], capture_output=True, text=True, timeout=600)
        try:
            nat = json.loads(r.stdout.strip().split('\n')[-1])
        except Exception:
            failures.append(dict(property=pid, source='c16-native', profile=profile, obligation='c16::run[%s]#the literal program runs' % profile,
                                 what='the literal program crashed', input=(r.stdout[-300:] + r.stderr[-600:]), verifier_output=r.stderr[-800:]))
            continue
        ev['native'].append(dict(profile=profile, cases=nat['cases'], failures=len(nat['failures']), label='bounded over programs: one concrete execution per literal'))
        for f in nat['failures'][:8]:
            failures.append(dict(property=pid, source='c16-native', profile=profile, obligation='c16::literal#macro value equals runtime parsing', what='macro literal differs from runtime parsing',
                                 input=f, verifier_output=f))
    rdir = os.path.join(CRATE, 'reject')
    for name, rc in meta['reject'].items():
        d = os.path.join(rdir, name)
        os.makedirs(os.path.join(d, 'src'), exist_ok=True)
        open(os.path.join(d, 'Cargo.toml'), 'w').write('[package]\nname = "c16-reject-%s"\nversion = "0.0.0"\nedition = "2021"\n[workspace]\n[dependencies]\nbio-seq = { path = "/repo/bio-seq" }\n' % name.replace('_', '-'))
        open(os.path.join(d, 'src', 'lib.rs'), 'w').write('use bio_seq::prelude::*;\npub fn f() -> usize { let x = %s; x.len() }\n' % rc['expr'])
        shutil.copyfile(os.path.join(repo, 'Cargo.lock'), os.path.join(d, 'Cargo.lock'))
        p = subprocess.run(['cargo', 'check', '--offline'], cwd=d, env=cargo_env('debug', 'target-c16-reject'), capture_output=True, text=True, timeout=900)
        # rejected = this crate fails to compile while the program of valid literals (the control, same dependencies,
        # same toolchain) compiled; whether the message is the macro's own wording is recorded, not demanded
        control_ok = any(n.get('profile') == 'debug' for n in ev['native'])
        ev['rejects'].append(dict(case=name, literal=rc['expr'], rejected=p.returncode != 0, diagnostic_matches=rc['expect'] in p.stderr))
        if p.returncode == 0:
            failures.append(dict(property=pid, source='c16-reject', profile='debug', obligation='c16::reject::%s#an invalid literal is a compile-time error' % name,
                                 what='invalid literal compiles', input=rc['expr'], verifier_output='cargo check succeeded'))
        elif not control_ok:
            undecided.append('C16 reject case %s: the control program did not build, so a failing build says nothing' % name)
    # finding F12: one valid LONG literal compiled alone (the property says every valid literal compiles)
    lg = meta.get('long')
    if lg:
        d = os.path.join(rdir, 'long_literal')
        os.makedirs(os.path.join(d, 'src'), exist_ok=True)
        open(os.path.join(d, 'Cargo.toml'), 'w').write('[package]\nname = "c16-long-literal"\nversion = "0.0.0"\nedition = "2021"\n[workspace]\n[dependencies]\nbio-seq = { path = "/repo/bio-seq" }\n')
        open(os.path.join(d, 'src', 'lib.rs'), 'w').write('use bio_seq::prelude::*;\npub fn f() -> usize { let x = %s; x.len() }\n' % lg['expr'])
        shutil.copyfile(os.path.join(repo, 'Cargo.lock'), os.path.join(d, 'Cargo.lock'))
        p = subprocess.run(['cargo', 'check', '--offline'], cwd=d, env=cargo_env('debug', 'target-c16-reject'), capture_output=True, text=True, timeout=900)
        first = next((l for l in p.stderr.split('\n') if l.startswith('error')), '')
        ev['long_literal'] = dict(symbols=lg['symbols'], bits=lg['bits'], compiles=p.returncode == 0, first_error=first[:200])
        control_ok = any(n.get('profile') == 'debug' for n in ev['native'])
        if p.returncode != 0 and control_ok:
            failures.append(dict(property=pid, source='c16-long', profile='debug', obligation='c16::long_literal#a valid literal of %d IUPAC symbols (%d bits) compiles' % (lg['symbols'], lg['bits']),
                                 what='a valid long literal does not compile', input='iupac! literal of %d symbols: %s' % (lg['symbols'], first[:200]), verifier_output=p.stderr[-800:]))
    shutil.rmtree(rdir, ignore_errors=True)
    return failures, undecided, ev
