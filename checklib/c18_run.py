"""C18: serde round trip.  k-mer half: complete Kani harnesses (full storage domain) through the real derive
expansion and the real bincode encoder; sequence half and the text format: bounded native stand-in."""
import json
import os
import subprocess

import kani_run
from c17_run import cargo_env

HERE = os.path.dirname(os.path.abspath(__file__))
ROOT = os.path.dirname(HERE)
WORK = os.path.join(ROOT, 'work')
CRATE = os.path.join(ROOT, 'c18')

HARNESSES = ['kmer_bincode_dna_k1', 'kmer_bincode_dna_k8', 'kmer_bincode_dna_k17', 'kmer_bincode_dna_k32', 'kmer_bincode_iupac_k16',
             'kmer_bincode_dna_k32_u64', 'kmer_bincode_dna_k64_u128', 'kmer_bincode_iupac_k32_u128']


THOROUGH = ['kmer_bincode_amino_k10', 'kmer_bincode_text_k8', 'kmer_bincode_masked_iupac_k12', 'kmer_bincode_dna_k5_u64', 'kmer_bincode_amino_k21_u128', 'kmer_bincode_dna_k33_u128']


def run(pid, tier, seed, repo='/repo'):
    """returns (failures, undecided, evidence_dict, obligations, discharged)"""
    failures, undecided = [], []
    ev = dict(native=[], kani=[])
    obligations = discharged = 0
    kani_run.sync_lock(CRATE, repo)
    binp = None
    for profile in (['debug', 'release'] if tier == 'thorough' else ['debug']):
        env = cargo_env(profile, 'target-c18')
        p = subprocess.run(['cargo', 'build', '--offline'], cwd=CRATE, env=env, capture_output=True, text=True, timeout=1800)
        if p.returncode != 0:
            # the harness crate only uses the public API with the `serde` feature: if it stops building that is a tool
            # problem or an API change, not a decided violation
            undecided.append('c18 crate does not build (%s): %s' % (profile, p.stderr[-800:]))
            continue
        b = os.path.join(env['CARGO_TARGET_DIR'], 'debug', 'bioseq-c18')
        binp = binp or b
        e2 = dict(os.environ)
        e2['VERIF_SEED'] = str(seed)
        r = subprocess.run([b] + (['thorough'] if tier == 'thorough' else []), capture_output=True, text=True, timeout=1200, env=e2)
        try:
            nat = json.loads(r.stdout.strip().split('\n')[-1])
        except Exception:
            failures.append(dict(property=pid, source='c18-native', profile=profile, obligation='c18::run[%s]#the round-trip program runs to completion' % profile,
                                 what='the round-trip program crashed', input=(r.stdout[-300:] + r.stderr[-800:]), verifier_output=r.stderr[-800:]))
            continue
        ev['native'].append(dict(profile=profile, cases=nat['cases'], failures=len(nat['failures']),
                                 label='bounded: lengths 0..70, word boundaries to 257, 1000 (thorough: to 10000); 7 codecs; histories parsed / sliced-and-copied / edited / reversed / from_raw; bincode and serde_json'))
        for f in nat['failures'][:8]:
            failures.append(dict(property=pid, source='c18-native', profile=profile, obligation='c18::roundtrip#deserialize(serialize(x)) equals x (==, len, symbols, hash, display)',
                                 what='serialization round trip changes the value', input=f, verifier_output=f))
    if binp is None:
        return failures, undecided, ev, obligations, discharged
    hs = HARNESSES + (THOROUGH if tier == 'thorough' else [])
    res, log, wall, cmd = kani_run.run_kani(hs, 'debug', repo, jobs=8, timeout=900, crate='c18', prefix='harness::', target='target-kani-c18')
    ev['kani_cmd'] = cmd
    ev['kani_wall_s'] = round(wall, 1)
    for h in hs:
        v = res.get(h) or dict(status='unknown')
        ev['kani'].append(dict(harness=h, status=v['status'], checks=v.get('checks'), covers=v.get('covers'), time_s=v.get('time_s'),
                               label='complete: loop-free harness over the full storage domain (all 2^64 / 2^128 values)'))
        if v['status'] in ('undecided', 'unknown'):
            undecided.append('kani %s: no verdict (%s)' % (h, log[-300:]))
            continue
        if v.get('checks'):
            obligations += v['checks'][1]
            discharged += v['checks'][1] - v['checks'][0]
        if v.get('covers') and v['covers'][0] < v['covers'][1]:
            undecided.append('kani %s: cover not satisfied (vacuous harness)' % h)
        if v['status'] == 'failed':
            pbs, _ = kani_run.playback(h, 'debug', repo, crate='c18', prefix='harness::', target='target-kani-c18')
            pbs = [p for p in pbs if p['kind'] != 'cover']
            for fc in v['failed_checks']:
                pb = pbs[0] if pbs else None
                f = dict(property=pid, source='c18-kani', profile='debug', obligation='c18::%s#%s' % (h, fc['desc']), what=fc['desc'], harness=h,
                         vals=pb['vals'] if pb else None, verifier_output=fc['desc'] + ' @ ' + fc['where'], input=None)
                if pb and pb['vals']:
                    hexv = ''.join('%02x' % b for b in pb['vals'][0])
                    f['input'] = 'storage word (little-endian bytes) ' + hexv
                    rr = subprocess.run([binp, 'replay', h, hexv], capture_output=True, text=True)
                    f['native_replay'] = rr.stdout.strip()[-400:]
                    f['reproduced'] = '"failed":true' in rr.stdout or 'panicked' in rr.stdout
                failures.append(f)
    return failures, undecided, ev, obligations, discharged
