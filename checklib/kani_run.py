"""Run Kani harnesses on the real crate (layer L); playback + native replay of counterexamples."""
import json
import os
import re
import shutil
import subprocess
import time

HERE = os.path.dirname(os.path.abspath(__file__))
ROOT = os.path.dirname(HERE)
WORK = os.path.join(ROOT, 'work')


def env_for(profile):
    e = dict(os.environ)
    e['CARGO_NET_OFFLINE'] = 'true'
    e['CARGO_TARGET_DIR'] = os.path.join(WORK, 'target-kani-' + profile)
    e['CARGO_PROFILE_DEV_DEBUG_ASSERTIONS'] = 'true' if profile == 'debug' else 'false'
    e['CARGO_PROFILE_DEV_OVERFLOW_CHECKS'] = 'true' if profile == 'debug' else 'false'
    return e


def sync_lock(crate_dir, repo):
    src = os.path.join(repo, 'Cargo.lock')
    if os.path.exists(src):
        shutil.copyfile(src, os.path.join(crate_dir, 'Cargo.lock'))


def run_kani(harnesses, profile, repo='/repo', jobs=12, timeout=900, crate='kani', prefix='harness::', target=None):
    """returns dict: harness -> {status, failed_checks, covers, time_s}, plus raw log"""
    crate_dir = os.path.join(ROOT, crate)
    sync_lock(crate_dir, repo)
    cmd = ['cargo', 'kani', '--output-format=terse', '-j', str(jobs), '--exact']
    for h in harnesses:
        cmd += ['--harness', prefix + h]
    t0 = time.time()
    # development aid for seeded runs only (a shorter limit can only turn a verdict into UNDECIDED, never into a pass)
    timeout = min(timeout, int(os.environ.get('VERIF_KANI_TIMEOUT', timeout)))
    e = env_for(profile)
    if target:
        e['CARGO_TARGET_DIR'] = os.path.join(WORK, target + '-' + profile)
    try:
        p = subprocess.run(cmd, cwd=crate_dir, env=e, capture_output=True, text=True, timeout=timeout)
        log, rc = p.stdout + p.stderr, p.returncode
    except subprocess.TimeoutExpired as e:
        out = e.stdout or ''
        if isinstance(out, bytes):
            out = out.decode('utf-8', 'replace')
        log, rc = out + '\nTIMEOUT after %ds' % timeout, 124
        subprocess.run(['pkill', '-x', 'cbmc'], capture_output=True)
    wall = time.time() - t0
    res = {}
    cur = {}      # thread -> harness
    th = None
    block = None
    for line in log.split('\n'):
        m = re.match(r'^(?:Thread (\d+): )?Checking harness (\S+?)\.\.\.', line)
        if m:
            th = m.group(1) or '0'
            cur[th] = m.group(2)
            continue
        m = re.match(r'^Thread (\d+):\s*$', line)
        if m:
            th = m.group(1)
            block = cur.get(th)
            if block:
                res.setdefault(block, dict(status='unknown', failed_checks=[], covers=None, time_s=None, checks=None))
            continue
        if line.startswith('VERIFICATION RESULT:') and block is None and len(cur) == 1:
            block = list(cur.values())[0]
            res.setdefault(block, dict(status='unknown', failed_checks=[], covers=None, time_s=None, checks=None))
        if block is None:
            continue
        r = res[block]
        m = re.match(r'^ \*\* (\d+) of (\d+) failed', line)
        if m:
            r['checks'] = [int(m.group(1)), int(m.group(2))]
        m = re.match(r'^ \*\* (\d+) of (\d+) cover properties satisfied', line)
        if m:
            r['covers'] = [int(m.group(1)), int(m.group(2))]
        m = re.match(r'^Failed Checks: (.*)$', line)
        if m:
            r['failed_checks'].append(dict(desc=m.group(1), where=''))
        m = re.match(r'^ File: (.*)$', line)
        if m and r['failed_checks']:
            r['failed_checks'][-1]['where'] = m.group(1)
        if line.startswith('VERIFICATION:- SUCCESSFUL'):
            r['status'] = 'ok'
        elif line.startswith('VERIFICATION:- FAILED'):
            r['status'] = 'failed'
        m = re.match(r'^Verification Time: ([0-9.]+)s', line)
        if m:
            r['time_s'] = float(m.group(1))
            block = None
    short = {}
    for k, v in res.items():
        short[k.split('::')[-1]] = v
    for h in harnesses:
        if h not in short:
            short[h] = dict(status='undecided', failed_checks=[], covers=None, time_s=None, checks=None,
                            reason='no result in Kani output (rc=%d)' % rc)
    return short, log, wall, ' '.join(cmd)


def playback(harness, profile, repo='/repo', timeout=1800, crate='kani', prefix='harness::', target=None):
    """re-run one failing harness with concrete playback; return list of (check description, [byte vectors])"""
    crate_dir = os.path.join(ROOT, crate)
    cmd = ['cargo', 'kani', '--output-format=terse', '--exact', '--harness', prefix + harness, '-Z', 'concrete-playback', '--concrete-playback=print']
    e = env_for(profile)
    if target:
        e['CARGO_TARGET_DIR'] = os.path.join(WORK, target + '-' + profile)
    try:
        p = subprocess.run(cmd, cwd=crate_dir, env=e, capture_output=True, text=True, timeout=timeout)
        log = p.stdout + p.stderr
    except subprocess.TimeoutExpired:
        return [], 'TIMEOUT'
    out = []
    parts = re.split(r'/// Check for ', log)
    for part in parts[1:]:
        m = re.match(r'`([^`]*)`: "((?:[^"\\]|\\.)*)"', part)
        m2 = re.search(r'let concrete_vals: Vec<Vec<u8>> = vec!\[(.*?)\n\s*\];', part, re.S)
        if not m or not m2:
            continue
        vecs = [[int(x) for x in v.split(',') if x.strip()] for v in re.findall(r'vec!\[([^\]]*)\]', m2.group(1))]
        out.append(dict(kind=m.group(1), desc=m.group(2), vals=vecs))
    return out, log


NOTES = []


def witness_bin(profile, repo='/repo'):
    """build the native witness crate against the working tree; returns path or raises"""
    crate_dir = os.path.join(ROOT, 'witness')
    sync_lock(crate_dir, repo)
    e = dict(os.environ)
    e['CARGO_NET_OFFLINE'] = 'true'
    e['CARGO_TARGET_DIR'] = os.path.join(WORK, 'target-witness-' + profile)
    e['CARGO_PROFILE_DEV_DEBUG_ASSERTIONS'] = 'true' if profile == 'debug' else 'false'
    e['CARGO_PROFILE_DEV_OVERFLOW_CHECKS'] = 'true' if profile == 'debug' else 'false'
    p = subprocess.run(['cargo', 'build', '--offline', '-q'], cwd=crate_dir, env=e, capture_output=True, text=True, timeout=1800)
    if p.returncode != 0 and re.search(r'Kmer<[^>]*, u(64|128)>[^\n]*(Ord|PartialOrd)|(Ord|PartialOrd)[^\n]*Kmer<[^>]*, u(64|128)>', p.stderr):
        # the tree under test no longer implements Ord for k-mers on wide storage: rebuild without the checks that need it, so
        # that the rest of the stand-ins (word-sized k-mers included) still run on the real crate; the loss is reported
        e2 = dict(e)
        e2['RUSTFLAGS'] = (e.get('RUSTFLAGS', '') + ' --cfg no_wide_ord').strip()
        e2['CARGO_TARGET_DIR'] = e['CARGO_TARGET_DIR'] + '-nowide'
        p2 = subprocess.run(['cargo', 'build', '--offline', '-q'], cwd=crate_dir, env=e2, capture_output=True, text=True, timeout=1800)
        if p2.returncode == 0:
            NOTES.append('Kmer on u64 / u128 storage no longer implements Ord / PartialOrd in this tree: the wide-storage ordering checks were compiled out')
            return os.path.join(e2['CARGO_TARGET_DIR'], 'debug', 'bioseq-witness')
    if p.returncode != 0:
        raise RuntimeError('witness build failed:\n' + p.stderr[-3000:])
    return os.path.join(e['CARGO_TARGET_DIR'], 'debug', 'bioseq-witness')


def replay_native(binpath, law, vals, timeout=120):
    args = [binpath, 'replay', law] + [''.join('%02x' % b for b in v) for v in vals]
    p = subprocess.run(args, capture_output=True, text=True, timeout=timeout)
    try:
        return json.loads(p.stdout.strip().split('\n')[-1])
    except Exception:
        return dict(error='no json', stdout=p.stdout[-500:], stderr=p.stderr[-500:], rc=p.returncode)


def run_witness(binpath, args, timeout=3600):
    p = subprocess.run([binpath] + args, capture_output=True, text=True, timeout=timeout)
    try:
        return json.loads(p.stdout.strip().split('\n')[-1])
    except Exception:
        return dict(error='no json', stdout=p.stdout[-1500:], stderr=p.stderr[-1500:], rc=p.returncode)
