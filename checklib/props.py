"""Per-property configuration of the checks (which units / harnesses / stand-ins decide it)."""

COMMON_ASSUMPTIONS = [
    "layer B: every #[verifier::external_body] function in contracts/00_prelude.vrs is an ASSUMED contract of a bitvec/core operation (listed in shim/AXIOMS.md); sanity-checked natively by axcheck (bounded), never proved",
    "rule R5: the #[repr(transparent)] pointer cast `&*(ptr::from_ref::<Bs>(E) as *const SeqSlice<A>)` yields a SeqSlice whose bit slice is E (unsafe code, assumed)",
    "layer L statement (trait Codec contract in the Verus units) is assumed for a generic codec and proved per built-in codec by the Kani harnesses",
    "usize is 64 bits, little endian (`global size_of usize == 8`); machine arithmetic is NOT treated as mathematical: Verus checks every + - * / cast for overflow, Kani runs with overflow checks",
    "derive-generated impls (PartialEq/Eq/Ord/Clone on Seq, Kmer) are field-wise; rustc/LLVM compile the extracted text as Verus reads it",
    "extraction rules R1-R9 (DESIGN.md section 3.2): doc comments, attributes and `use` lines dropped, visibilities widened, contracts and ghost code spliced; function bodies are the repository's text",
]

CODECS = ['dna', 'iupac', 'amino', 'text', 'masked_dna', 'masked_iupac', 'degenerate']

INDEX = ['index.range', 'index.rangeto', 'index.rangetoincl', 'index.rangeincl', 'index.rangefrom', 'index.rangefull', 'index.usize']
REMOVE = ['seq.remove.' + r for r in ['range', 'rangeto', 'rangetoincl', 'rangeincl', 'rangefrom', 'rangefull', 'boundpair']]
KANI_NOTE = 'trusts Kani/CBMC and the documented-alphabet oracles in laws/laws.rs (written from the module docs, IUPAC standard and NCBI table 1)'
B_NOTE = 'assumes the bitvec contracts of layer B (external_body shims, sanity-checked natively but not proved), the repr(transparent) cast (R5) and the Codec laws proved per codec by Kani'

PROPS = {
    'C01': dict(
        level='other',
        level_text='mixed: (proved) Kani proves the per-byte codec laws L1-L8 for all 256 bytes x 7 codecs x both debug-assertion settings; Verus proves push (appends exactly the code of the symbol), new, nth/SeqIter::next (decode of the i-th code) and the specification-level round trip (parse_all/display_all lemmas over the laws); (bounded, not proof) the iterator-adapter glue of the parsing/display entry points is covered by a bounded stand-in on the real crate',
        level_note=B_NOTE + '; ' + KANI_NOTE + '; assumption stated in evidence: map/collect/for_each adapters fold push/next in order and short-circuit on the first Err',
        technique='Kani (complete over u8) + Verus contracts and lemmas; bounded stand-in for iterator glue (labelled bounded)',
        explanation='obligations/discharged count the Kani checks and Verus verification conditions only; the stand-in (all byte strings of length <= 3 over valid/invalid characters + word-boundary lengths, every entry point) is reported under bounded_standins and is not a proof',
        verus=[dict(name='c01', mode='T', roots=['seq.push', 'seq.new', 'seq.with_capacity', 'slice.nth', 'iter.seqiter.next', 'iter.into_iter', 'lemma_parse_display', 'seq.parse_delegations'])],
        kani=dict(quick=['codec_ascii_' + c for c in CODECS] + ['codec_rows_' + c for c in CODECS], profiles=['debug', 'release']),
        standin=True, standin_both_profiles=True,
    ),
    'C02': dict(
        level='proof',
        level_text='Verus proves every PartialEq impl between Seq/SeqSlice/&SeqSlice/Kmer (equal exactly when the bit views are equal; lemma: equal bits <=> equal length and symbols), the Hash impls against a ghost hasher log written from the property (content bits then length; a k-mer feeds the same log as its slice) and Borrow/AsRef consistency, generic in codec, K, storage and offset',
        level_note=B_NOTE + '; derived PartialEq on Seq/Kmer assumed field-wise; `== &str` paths are iterator glue covered by a bounded stand-in (labelled bounded)',
        technique='deductive verification (Verus) of extracted functions against contracts; ghost hasher log',
        verus=[dict(name='c02', mode='T', roots=['slice.eq', 'seq.eq_refs', 'lemma_eq', 'slice.hash', 'seq.hash', 'kmer.hash', 'seq.borrow', 'seq.as_ref', 'kmer.eq', 'kmer.unsafe_from'])],
        standin=True,
    ),
    'C03': dict(
        level='proof',
        level_text='Verus proves, for a generic codec (all symbol widths 1..8 at once), every length, every offset and every range, that each Index impl / len / get / nth returns exactly the requested symbols (accept-mode) and that out-of-range positions never return (refuse-mode); obligations are generated from the function text extracted from /repo on every run',
        level_note=B_NOTE,
        technique='deductive verification (Verus) of extracted functions against contracts, accept- and refuse-mode',
        verus=[
            dict(name='c03', mode='T', roots=INDEX + ['slice.len', 'slice.is_empty', 'slice.nth', 'slice.get', 'seq.deref', 'seq.as_ref', 'seqarray.deref']),
            dict(name='c03', mode='R', roots=INDEX + ['slice.len', 'slice.is_empty', 'slice.nth', 'slice.get', 'slice.into_u8']),
        ],
        standin=True, standin_both_profiles=True,
    ),
    'C04': dict(
        level='proof',
        level_text='Verus proves the integer conversions (load_le of a slice = sum of code_i * 2^(i*BITS); longer slices refused with SequenceTooLong), KmerStorage::{to_bitarray,from_bitslice}, from_raw (Some exactly when the image holds len symbols, bits read from the image) and into_raw together with the invariant head == 0: ESTABLISHED by every constructor of an owned sequence (new, with_capacity, from_raw, to_owned, & / |, and the public conversions From<&BitSlice> / From<BitVec> - finding F11, repaired) and PRESERVED by clone and every edit, plus the layout lemma from bit-level agreement to the documented symbol layout',
        level_note=B_NOTE + '; KmerStorage::{to_bitarray,from_bitslice} are verified for usize, u64 and u128 (two-word split lemma); From<&Kmer> for usize (generic Into) is covered by the bounded stand-in',
        technique='deductive verification (Verus) of extracted functions against contracts; head-offset ghost state',
        verus=[
            dict(name='c04', mode='T', roots=['slice.try_usize', 'slice.try_usize.accept', 'slice.into_u8', 'kmer.storage', 'kmer.conv', 'kmer.unsafe_from', 'seq.raw', 'seq.from_bits', 'slice.to_owned', 'slice.bitops', 'seq.bitops', 'seq.clone', 'seq.push', 'seq.prepend', 'seq.insert', 'seq.append', 'seq.truncate', 'seq.clear', 'seq.new', 'seq.with_capacity'] + REMOVE),
            dict(name='c04', mode='R', roots=['slice.try_usize', 'slice.into_u8', 'seq.into_usize']),
        ],
        standin=True,
    ),
    'C05': dict(
        level='proof',
        level_text='Kani proves the codec contract L0-L8 and the complement laws on the real compiled crate (real derive expansion, real transmute) for all 256 byte values x all table rows x 7 codecs x debug-assertions on/off; harnesses are loop-free over their symbolic inputs, so this is a complete enumeration of the finite domain, with counterexamples replayed natively',
        level_note=KANI_NOTE + '; the cross-codec conversion law (harness conversions: Dna -> Iupac / text, text -> Dna over all 256 bytes) is part of this check as well as of C19',
        technique='Kani contract harnesses over the full u8 domain (complete), native replay of counterexamples',
        kani=dict(quick=['codec_contract_' + c for c in CODECS] + ['complement_' + c for c in ['dna', 'iupac', 'masked_dna', 'masked_iupac', 'degenerate']] + ['text_bits_identity', 'conversions'],
                  profiles=['debug', 'release']),
        items=True,
        explanation='complete enumeration by Kani: every harness is loop-free over a symbolic byte (all 256 values) and symbolic table rows',
        trusted_base=['documented-alphabet oracles in laws/laws.rs'],
    ),
    'C06': dict(
        level='proof',
        level_text='Verus proves for push, clear, truncate, append, prepend, insert, remove (all six std range types and the general (Bound, Bound) pair form) and clone that the representation invariant is kept and the whole symbol list equals the corresponding list operation (untouched positions pinned); any finite edit history follows by modularity',
        level_note=B_NOTE + '; Rust ownership gives value independence of clones; extend/FromIterator are iterator glue covered by a bounded stand-in (labelled bounded)',
        technique='deductive verification (Verus): data structure against an abstract list view',
        verus=[
            dict(name='c06', mode='T', roots=['seq.new', 'seq.with_capacity', 'seq.push', 'seq.clear', 'seq.truncate', 'seq.append', 'seq.prepend', 'seq.insert', 'seq.clone', 'slice.to_owned'] + REMOVE),
            dict(name='c06', mode='R', roots=['seq.insert', 'seq.push', 'seq.append', 'seq.prepend']),
        ],
        standin=True,
    ),
    'C07': dict(
        level='proof',
        level_text='plan A of DESIGN.md: Verus proves the in-place loops ReverseMut::rev and ComplementMut::comp of Seq and SeqSlice VERBATIM (for-loops over bitvec mutable chunk iterators, unsafe block and remove_alias included) against relational contracts: rev yields the symbols in opposite order, comp replaces each symbol by a comp-related symbol and nothing else; the copying forms to_rev/to_comp/to_revcomp and revcomp (default trait methods of lib.rs) are proved to be the in-place form on an owned copy; lemmas give rev o rev = id and the same per-position result for either order of composition; Kani proves on the real codecs that symbol complement is the documented involution',
        level_note=B_NOTE + '; additionally assumes the prophetic-iterator contracts of chunks_exact_mut / rchunks_exact_mut / remove_alias and BitSlice::reverse / load_le / store (layer B); ' + KANI_NOTE + '; a bounded stand-in on the real crate cross-checks the loop contracts (labelled bounded, not counted)',
        technique='deductive verification (Verus) of the loops with prophetic iterator specs + Kani complete over symbols',
        verus=[dict(name='c07', mode='T', roots=['seq.rev', 'slice.rev', 'seq.comp', 'slice.comp', 'lib.wrappers', 'lemma_c07', 'lemma_rev_bits', 'slice.to_owned'])],
        kani=dict(quick=['complement_' + c for c in ['dna', 'iupac', 'masked_dna', 'masked_iupac', 'degenerate']], profiles=['debug', 'release'], quick_profiles=['debug']),
        standin=True,
    ),
    'C08': dict(
        level='proof',
        level_text='Verus proves KmerIter::next (yields the k-mer with symbols index..index+K in canonical form, None exactly when index+K > n), kmers(), unsafe_from, TryFrom<&SeqSlice> (Ok exactly for length K, MismatchedLength otherwise), Deref for Kmer and the k-mer/sequence equality impls, generic in codec, K and storage',
        level_note=B_NOTE + '; K*BITS <= storage width is a precondition (the crate never evaluates its _ASSERT_K consts); FromStr/Display/From<Kmer> for Seq are glue covered by a bounded stand-in',
        technique='deductive verification (Verus) of extracted functions against contracts',
        verus=[dict(name='c08', mode='T', roots=['kmer.iter.next', 'iter.ctors', 'kmer.try_from', 'kmer.deref', 'kmer.eq', 'kmer.len', 'iter.chunks.next', 'kmer.conv', 'kmer.storage', 'kmer.run_lemma', 'iter.run_lemmas'])],
        standin=True,
    ),
    'C09': dict(
        level='proof',
        level_text='Verus proves rotated_left/right and pushl/pushr generically in codec, K and storage: results are canonical (value < 2^(K*BITS)) and their symbol lists are the rotated / shifted lists; Verus also proves the symbol-by-symbol loop of ReverseMut for Kmer<A, K, usize> (every codec width but 2) for ALL widths 1..8, all K that fit and all words: the result is canonical and its symbol list is the reversed list (loop invariant over the storage word, vstd shift/mask lemmas + by(bit_vector)); Kani proves complement, reverse and reverse-complement of 2-bit k-mers at word level for all 2^64 values per K (complete)',
        level_note=B_NOTE + '; ' + KANI_NOTE + '; a bounded stand-in C09 (every codec width and K, structured content with all-zero symbols at either end, every rotation class, pushes, DNA comp / revcomp / canonical form) cross-checks the word-level laws on the real crate and supplies concrete inputs when a rewritten loop makes the Kani harnesses time out; in the Verus unit kmer.rev the 2-bit fast path Kmer::rev_blocks_2 (word-level bit tricks) is an ASSUMED contract, checked by the Kani harnesses kmer_dna_ops_k* / kmer_rev_dna_k9 (complete per K, bounded over K); the kmer_rev_<codec>_k<K> harnesses remain as the counterexample source for the loop',
        technique='deductive verification (Verus) for rotate/push and the generic reverse loop; Kani over the full usize domain for word-level comp/rev of 2-bit k-mers',
        verus=[dict(name='c09', mode='T', roots=['kmer.rotate', 'kmer.push', 'kmer.rev'])],
        kani=dict(quick=['kmer_dna_ops_k%d' % k for k in (1, 2, 5, 16, 31, 32)] + ['kmer_rev_iupac_k2', 'kmer_rev_iupac_k16', 'kmer_rev_amino_k3', 'kmer_rev_amino_k10', 'kmer_rev_text_k1', 'kmer_rev_text_k8', 'kmer_rev_masked_iupac_k12', 'kmer_rev_degenerate_k7', 'kmer_rev_dna_k9'],
                  thorough=['kmer_dna_ops_k%d' % k for k in range(1, 33)] + ['kmer_rev_iupac_k5'],
                  profiles=['debug', 'release'], quick_profiles=['debug']),
        standin=True,
    ),
    'C10': dict(
        level='proof',
        level_text='Kani proves on the compiled crate that the derived Ord/PartialOrd/Eq of Kmer is exactly the numeric order of the packed integer (total, transitive, consistent with ==, min/max) for usize, u64 and u128 storage over the full integer domain; Verus proves the pure lemma that numeric order of canonical values is colexicographic order of the symbol codes (last differing symbol decides)',
        level_note=KANI_NOTE + '; Iterator::min over kmers() is std glue (assumed); the documented claim that equal-length owned sequences order the same way does NOT hold (known finding F8: Seq orders bit-lexicographically) and is reported as KNOWN-FINDING with its behaviour contract checked; the bounded stand-in C10 also orders word-backed k-mers of every orderable codec width (2, 8, 4, 5, 1 bits; Iupac and Amino symbols have no Ord) on pairs differing in one symbol at the first / middle / last position - the Kani harnesses are per (codec, K) and time out when cmp is rewritten over bitvec',
        technique='Kani over the full usize/u64/u128 domain + Verus induction lemma (colex = numeric)',
        verus=[dict(name='c10', mode='T', roots=['lemma_colex'])],
        kani=dict(quick=['kmer_ord_dna_k5', 'kmer_ord_dna_k32', 'kmer_ord_text_k3', 'kmer_ord_miupac_k12_u64', 'kmer_ord_dna_k40_u128'], profiles=['debug']),
        standin=True,
    ),
    'C11': dict(
        level='proof',
        level_text='Verus proves SeqIter/RevIter/SeqChunks next() and the constructors (iter, rev_iter, windows, chunks, into_iter): each call yields exactly the next symbol / width-w slice and advances the index; run-to-exhaustion lemmas give the full enumeration and termination',
        level_note=B_NOTE + '; Iterator::next impls are re-homed as inherent methods (R8) so the struct invariant can be a precondition; chain/FromIterator<&SeqSlice> are std glue covered by a bounded stand-in',
        technique='deductive verification (Verus) of iterator step functions + induction lemmas',
        verus=[dict(name='c11', mode='T', roots=['iter.seqiter.next', 'iter.reviter.next', 'iter.chunks.next', 'iter.ctors', 'iter.into_iter', 'iter.run_lemmas'])],
        standin=True,
    ),
    'C12': dict(
        level='proof',
        level_text='Verus proves &, | on borrowed and owned IUPAC sequences are per-symbol and/or of the codes and contains <=> equal length and every position a bitwise subset; Kani proves on the real codec that codes are nucleotide-set masks so or/and are union/intersection (all 256 pairs), From<Dna> gives singletons and complement is member-wise',
        level_note=B_NOTE + '; ' + KANI_NOTE,
        technique='deductive verification (Verus) + Kani complete enumeration of symbol pairs',
        verus=[dict(name='c12', mode='T', roots=['slice.bitops', 'seq.bitops', 'iupac.contains'])],
        kani=dict(quick=['iupac_sets', 'codec_contract_iupac', 'complement_iupac'], profiles=['debug']),
        standin=True,
    ),
    'C13': dict(
        level='proof',
        level_text='Verus proves Standard::to_amino returns Amino::decode(sym0 + 4*sym1 + 16*sym2) for any 3-base slice at any offset (and refuses other lengths); Kani proves Amino::unsafe_from_bits on all 64 patterns against NCBI table 1; windows(3)/chunks(3) positions follow from the C11 contracts',
        level_note=B_NOTE + '; ' + KANI_NOTE,
        technique='deductive verification (Verus) + Kani complete enumeration of the 64 codons',
        verus=[dict(name='c13', mode='T', roots=['translation.to_amino', 'iter.chunks.next']),
               dict(name='c13', mode='R', roots=['translation.to_amino'])],
        kani=dict(quick=['amino_table', 'codec_contract_amino'], profiles=['debug', 'release']),
        standin=True,
    ),
}

PROPS.update({
    'C19': dict(
        level='other',
        level_text='mixed: (proved) Kani proves the symbol conversions Dna->Iupac, Dna->text (letter kept) and text->Dna (succeeds exactly for A,C,G,T, names the byte otherwise) for all 256 bytes; (bounded) sequence conversion and trim_u8 are iterator-adapter glue (position/rposition/map/collect) covered by a bounded stand-in on the real crate',
        level_note=KANI_NOTE + '; trim_u8 and From<&SeqSlice<A>> for Seq<B> cannot be brought into Verus (closures, iterator adapters) nor Kani (bitvec cost)',
        technique='Kani (complete over u8) for symbol conversions; bounded stand-in for trim/convert glue (labelled bounded)',
        explanation='obligations count Kani checks only; stand-in: all byte strings of length <= 5 over {2 acceptable, 2 unacceptable} x 7 codecs for trim_u8, all DNA sequences of length <= 5 at random offsets for conversion',
        kani=dict(quick=['conversions', 'codec_ascii_text', 'codec_rows_text', 'codec_rows_iupac', 'codec_rows_dna'], profiles=['debug', 'release'], quick_profiles=['debug']),
        standin=True,
    ),
    'C20': dict(
        level='proof',
        level_text='Kani proves every symbol-level clause for all 32 masked-IUPAC and 14 masked-DNA symbols (case forms, idempotence/involution, unmask o mask = unmask, nucleotide set unchanged, commutes with complement, gap/pad fixed); Verus proves the sequence-level loops MaskableMut::mask/unmask for Seq VERBATIM (plan A: prophetic chunk iterators): every position is replaced by a mask-/unmask-related symbol, length and all other bits unchanged, for every symbol width (so 5-bit symbols straddling words are covered by the view abstraction), and to_mask/to_unmask are the in-place forms on a copy',
        level_note=B_NOTE + '; prophetic-iterator contracts of chunks_exact_mut / remove_alias assumed (layer B); ' + KANI_NOTE + '; bounded stand-in cross-checks at positions 12, 25, 38, 51 (labelled bounded)',
        technique='Kani (complete over symbols) + deductive verification (Verus) of the loops',
        verus=[dict(name='c20', mode='T', roots=['seq.mask', 'lib.wrappers', 'seq.comp', 'seq.rev'])],
        kani=dict(quick=['mask_iupac', 'mask_dna', 'complement_masked_dna', 'complement_masked_iupac', 'codec_contract_masked_dna', 'codec_contract_masked_iupac'], profiles=['debug', 'release'], quick_profiles=['debug']),
        standin=True,
    ),
    'C14': dict(
        level='proof',
        level_text='code half: Verus proves Standard::try_to_amino (length check, FIRST table row whose pattern contains the codon via the verified `contains`, InvalidCodon / AmbiguousTranslation otherwise), initialise_amino_to_iupac (inverse map = unique-row relation, same invariant as C15) and try_to_codon; data half: the 29 table rows are copied mechanically from the source text on every run (rule R15) and Verus discharges BY EVALUATION (assert by(compute)) that for all 15^3 gap-free codons first-match translation is sound and complete against NCBI table 1 (every concrete DNA codon inside the codon codes for the returned amino acid; no row matches only if they disagree) and that for all 21 amino symbols a unique row is an exact pattern (all and only its codons, translating back) while several rows mean no exact single pattern exists; composite lemmas join the halves (bit-level contains = mask-level match)',
        level_note=B_NOTE + '; additionally ASSUMES R15 (each iupac!("XYZ") literal denotes the symbols X,Y,Z - property C16, whose per-character core is proved and whose glue is bounded - and Amino::V displays as V / X as *: layer L, C05) and R16 (a lazily initialised static holds what its initialiser returns: std OnceLock); both are cross-checked by an EXHAUSTIVE native enumeration of the finite domain (16^3 codons, 21 amino symbols) on the real statics, labelled bounded stand-in',
        technique='deductive verification (Verus) of the lookup code + table data extracted mechanically and decided by evaluation inside the verifier (by(compute))',
        verus=[dict(name='c14', mode='T', roots=['std.code', 'std.reverse', 'std.data_fwd', 'std.data_rev', 'std.forward_lemma', 'std.reverse_lemma', 'iupac.contains'])],
        standin=True,
    ),
    'C15': dict(
        level='proof',
        level_text='Verus proves CodonTable::from_map, try_to_amino and try_to_codon generically in both codecs against a HashMap stand-in whose iteration yields every entry exactly once in an UNSPECIFIED order: the loop invariant is over the set of entries seen so far, so every iteration order is covered at once; postcondition inverse_ok: the inverse table holds Some(codon) exactly for amino acids with a unique preimage (same content), None exactly for two or more, and no entry for none; lookups translate a key codon presented as any slice (key view = bit content) and report InvalidCodon / AmbiguousCodon / InvalidAmino exactly as the property states',
        level_note=B_NOTE + '; additionally ASSUMES the contracts of std HashMap (new/contains_key/insert/get/iteration) stated modulo the key view - justified by the Hash/Eq/Borrow agreement proved in C02 - and Result::copied; `codon.into()` on the error path is glue (contract only); a bounded stand-in with repeated construction (fresh RandomState) cross-checks on the real crate',
        technique='deductive verification (Verus) with an order-agnostic prophetic iterator spec for HashMap',
        verus=[dict(name='c15', mode='T', roots=['translation.codontable', 'translation.lookup', 'translation.try_to_amino', 'seq.borrow', 'slice.hash', 'seq.hash', 'slice.eq'])],
        standin=True,
    ),
    'C16': dict(
        level='other',
        level_text='mixed: (proved) the per-character tables of the dna!/iupac! scanners are copied from bio-seq-derive/src/seqarray.rs on every run (rule R17) and Verus decides by evaluation, for all 256 byte values, that every character the runtime parser accepts is mapped by the macro to exactly BITS bits spelling that symbol code, bit 0 first, with no duplicate rows, and that the scanners have NO row for any other character (IUPAC: except X, which the module documentation lists as a spelling of the gap), so the fall-through `_ => Err` arm is what every other character reaches; SeqArray deref (first N*BITS bits of the word array) is verified in C03; (bounded over programs) token generation, bitarr!, word counting and the static are glue: generated literals of length 0..40, word-boundary lengths up to 257 (thorough: see below), every symbol at several positions, kmer! for K = 1..32 are expanded by the REAL macros when the harness crate is compiled against the working tree and compared with runtime parsing (==, len, symbols, hash, display, raw image); literals up to 1024 IUPAC symbols / 2049 DNA bases in the thorough tier; one valid 2049-symbol IUPAC literal is compiled alone in every run and does NOT compile - known finding F12, reported as KNOWN-FINDING); invalid literals (fixed set + every lower-case alphabet letter + punctuation + random non-alphabet bytes) are compiled alone and must fail to compile while the control program of valid literals compiles',
        level_note='the quantifier ranges over programs (each literal is a separate macro expansion): the macro code works on syn/quote token streams, outside Verus and Kani; only the per-character core is decided deductively, the rest is one concrete execution per generated literal',
        technique='table extraction + evaluation inside Verus for the per-character core; compile-and-compare of generated programs for the glue (bounded)',
        explanation='obligations count the Verus verification conditions of the per-character lemma only; the literal programs are listed under bounded_standins (cases, rejects) and are not proofs',
        verus=[dict(name='c16', mode='T', roots=['lit.tables', 'seqarray.deref'])],
        c16=True,
    ),
    'C18': dict(
        level='other',
        level_text='mixed: (complete, Kani) for k-mers the REAL serde derive expansion of `Kmer` and the real bincode 1.3 encoder/decoder are proved to round-trip every value of the storage word - loop-free harnesses over the full domain (all 2^64 usize/u64 and all 2^128 u128 words, Dna/Iupac, K = 1, 8, 16, 32, 64): image length = storage size, deserialize(serialize(k)).bs == k.bs, == holds; hash and display then agree because they are functions of the word (C02, C08); (bounded, labelled) an owned sequence is serialized by bitvec own serde implementation - external generic visitor code: Kani gave no verdict in 25 minutes for two symbolic words, serde_json none in 15 minutes for one k-mer - so sequences (7 codecs; lengths 0..70, every word boundary to 257, 1000, thorough to 10000; histories parsed / sliced-and-copied at any offset / truncated / removed / appended / prepended / inserted / pushed / cleared+extended / reversed in place and copying / rebuilt from a raw image) and the text format for both types are executed natively in both formats and compared by ==, len, symbols, hash, display',
        level_note='no bio-seq function text exists for this property (two cfg_attr derives): what is verified is the derive OUTPUT composed with the real format crates; only the k-mer/bincode part is a proof (for those instantiations), everything else is a bounded stand-in; ' + KANI_NOTE,
        technique='Kani complete harnesses (full storage domain) on the real serde derive expansion + bincode for k-mers; bounded native round trips for sequences and the text format',
        explanation='obligations count the Kani checks of the k-mer harnesses only; the native round trips are listed under bounded_standins and are not proofs',
        c18=True,
    ),
    'C17': dict(
        level='other',
        level_text='complete per declaration, bounded over declarations: tools/gen_c17.py writes enum declarations (a fixed boundary set: 2 and 40 variants, widths 1/3/7/8, default width for max discriminant 1..254 incl. every power-of-two boundary, binary/hex/byte literals, alternatives, display characters, over-wide declared width; plus VERIF_SEED-random ones, quick 12 / thorough 60); the REAL #[derive(Codec)] expands them when the harness crate is compiled; the codec contract (width, to_bits = discriminant, decoders accept exactly discriminants and alternatives, to_char / try_from_ascii, everything else refused, items() in declaration order) is proved by Kani for all 256 bytes per declaration against an oracle computed from the declaration text by the generator (independent of the macro), and re-executed natively; sequences and k-mers over EVERY generated codec are additionally exercised natively (c17/src/seqlaw.rs: display, parse, nth, iter, rev, slices, kmers of width 1, 3, 8, hash, back-conversion - bounded glue; the deductive argument for the last clause of the property is compositional: the Verus proofs of Seq / SeqSlice / Kmer are generic in the codec and assume only the codec contract proved here); malformed declarations are compiled alone and must fail to compile while the program of well-formed declarations compiles (whether the message is the derive own wording is recorded, not demanded)',
        level_note='the universally quantified statement is about the generator (parse_variants / parse_width / codec_derive: proc-macro code over syn token trees, outside Verus and Kani - Kani ICEs on it); what is verified is the generator OUTPUT for a bounded set of programs; ' + KANI_NOTE,
        technique='Kani codec contract on the real derive expansion of generated declarations (complete per declaration, bounded over declarations) + compiler runs for the rejection half',
        explanation='obligations count Kani checks and native law clauses over the generated declarations of this run (count = coverage.c17.declarations); bounded over programs, so not a proof of the quantified property; rejection cases are compiler runs listed under bounded_standins',
        c17=True,
    ),
})

NOT_APPLICABLE = {
}
