"""Per-property configuration of the checks (which units / harnesses / stand-ins decide it)."""

COMMON_ASSUMPTIONS = [
    "layer B: every #[verifier::external_body] function in contracts/00_prelude.vrs is an ASSUMED contract of a bitvec/core operation (listed in shim/AXIOMS.md); sanity-checked natively by axcheck (bounded), never proved",
    "rule R5: the #[repr(transparent)] pointer cast `&*(ptr::from_ref::<Bs>(E) as *const SeqSlice<A>)` yields a SeqSlice whose bit slice is E (unsafe code, assumed)",
    "layer L statement (trait Codec contract in the Verus units) is assumed for a generic codec and proved per built-in codec by the Kani harnesses",
    "usize is 64 bits, little endian (`global size_of usize == 8`); machine arithmetic is NOT treated as mathematical: Verus checks every + - * / cast for overflow, Kani runs with overflow checks",
    "derive-generated impls (PartialEq/Eq/Ord/Clone on Seq, Kmer) are field-wise; rustc/LLVM compile the extracted text as Verus reads it",
    "extraction rules R1-R9 (DESIGN.md section 3.2): doc comments, attributes and `use` lines dropped, visibilities widened, contracts and ghost code spliced; function bodies are the repository's text",
]

CODECS = ['dna', 'iupac', 'amino', 'text', 'masked_dna', 'masked_iupac', 'degenerate']

PROPS = {
    'C03': dict(
        level='proof',
        level_text='Verus proves, for a generic codec (all symbol widths 1..8 at once), every length, every offset and every range, that each Index impl / len / get / nth returns exactly the requested symbols (accept-mode) and that out-of-range positions never return (refuse-mode); obligations are generated from the function text extracted from /repo on every run',
        level_note='assumes the bitvec contracts of layer B (BitSlice::len, Index<range>), the repr(transparent) cast (R5) and the Codec laws proved by Kani in C05',
        technique='deductive verification (Verus) of extracted functions against contracts',
        verus=[
            dict(name='c03', mode='T', roots=['index.range', 'slice.len']),
        ],
        explanation='',
    ),
    'C05': dict(
        level='proof',
        level_text='Kani proves the codec contract L0-L8 and the complement laws on the real compiled crate (real derive expansion, real transmute) for all 256 byte values x all table rows x 7 codecs x debug-assertions on/off; harnesses are loop-free over their symbolic inputs, so this is a complete enumeration of the finite domain, with counterexamples replayed natively',
        level_note='trusts Kani/CBMC and the documented-alphabet oracles in laws/laws.rs (written from the module docs, IUPAC standard and NCBI table 1)',
        technique='Kani contract harnesses over the full u8 domain (complete), native replay of counterexamples',
        kani=dict(quick=['codec_contract_' + c for c in CODECS] + ['complement_' + c for c in ['dna', 'iupac', 'masked_dna', 'masked_iupac', 'degenerate']] + ['text_bits_identity'],
                  profiles=['debug', 'release']),
        items=True,
        explanation='complete enumeration by Kani: every harness is loop-free over a symbolic byte (all 256 values) and symbolic table rows',
        trusted_base=['documented-alphabet oracles in laws/laws.rs'],
    ),
}

NOT_APPLICABLE = {
    'C14': 'deciding facts are table data built at first use in OnceLock statics from proc-macro literals and a std HashMap; no contract within reach of Verus (no proc-macro expansion, no OnceLock/HashMap specs) or Kani (bitvec cost) decides soundness/completeness against the genetic code (DESIGN.md section 6)',
    'C16': 'quantifies over programs (each literal is a separate macro expansion); the deciding code is proc-macro code over syn token trees: Verus has no specs for it, Kani ICEs on it; per-literal checks are executions, not deductions (DESIGN.md section 6)',
    'C18': 'no bio-seq function text exists (two cfg_attr derives); behaviour is bitvec serde + bincode/serde_json, external generic visitor code outside both verifiers (DESIGN.md section 6)',
}
