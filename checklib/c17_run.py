"""C17: generated enum declarations through the real derive; Kani + native complete enumeration per
declaration; rejection half as compiler runs."""
import json
import os
import re
import subprocess
import time
import shutil

import kani_run

HERE = os.path.dirname(os.path.abspath(__file__))
ROOT = os.path.dirname(HERE)
WORK = os.path.join(ROOT, 'work')
CRATE = os.path.join(ROOT, 'c17')


def cargo_env(profile, target):
    e = dict(os.environ)
    e['CARGO_NET_OFFLINE'] = 'true'
    e['CARGO_TARGET_DIR'] = os.path.join(WORK, target + '-' + profile)
    e['CARGO_PROFILE_DEV_DEBUG_ASSERTIONS'] = 'true' if profile == 'debug' else 'false'
    e['CARGO_PROFILE_DEV_OVERFLOW_CHECKS'] = 'true' if profile == 'debug' else 'false'
    # build scripts / proc macros follow the same profile switches (the derive runs inside rustc)
    e['CARGO_PROFILE_DEV_BUILD_OVERRIDE_DEBUG_ASSERTIONS'] = e['CARGO_PROFILE_DEV_DEBUG_ASSERTIONS']
    e['CARGO_PROFILE_DEV_BUILD_OVERRIDE_OVERFLOW_CHECKS'] = e['CARGO_PROFILE_DEV_OVERFLOW_CHECKS']
    return e


def decl_text(d):
    o = ['#[derive(Clone, Copy, Debug, PartialEq, Eq, Hash, Codec)]']
    if d['bits'] is not None:
        o.append('#[bits(%d)]' % d['bits'])
    o.append('#[repr(u8)]')
    o.append('pub enum %s {' % d['name'])
    for vi, v in enumerate(d['variants']):
        if d.get('noise'):
            o.append(['    /// documented variant', '    #[allow(dead_code)]', '    #[doc = "x"]', '    #[cfg_attr(any(), deprecated)]'][vi % 4])
        if v['display']:
            o.append("    #[display('%s')]" % v['ch'])
        if v['alts'] and d.get('altsplit'):
            # the same helper attribute repeated: one #[alt] per alternative, hex / binary literals mixed in
            for j, a in enumerate(v['alts']):
                o.append('    #[alt(%s)]' % (hex(a) if j % 3 == 1 else bin(a) if j % 3 == 2 else str(a)))
        elif v['alts']:
            o.append('    #[alt(%s)]' % ', '.join(str(a) for a in v['alts']))
        if d.get('noise') and vi % 2 == 0:
            o.append('    /// trailing doc comment')
        o.append('    %s = %s,' % (v['name'], v['lit']))
    o.append('}')
    return '\n'.join(o)


def run(pid, tier, seed, repo='/repo'):
    """returns (failures, undecided, evidence_dict, obligations, discharged)"""
    failures, undecided = [], []
    ev = dict(declarations=0, kani=[], native=[], rejects=[], samples=[])
    obligations = discharged = 0
    nrand = 60 if tier == 'thorough' else 12
    kani_run.sync_lock(CRATE, repo)
    g = subprocess.run(['python3', os.path.join(ROOT, 'tools', 'gen_c17.py'), str(seed), str(nrand), os.path.join(CRATE, 'src')], capture_output=True, text=True)
    if g.returncode != 0:
        return failures, ['C17 generator failed: ' + g.stderr[-400:]], ev, 0, 0
    meta = json.load(open(os.path.join(CRATE, 'src', 'decls.json')))
    decls = {d['name']: d for d in meta['declarations']}
    ev['declarations'] = len(decls)
    ev['samples'] = [decl_text(d) for d in meta['declarations'][-3:]]
    gen_lines = open(os.path.join(CRATE, 'src', 'gen.rs')).read().split('\n')

    def enum_at(line):
        for i in range(min(line, len(gen_lines)) - 1, -1, -1):
            m = re.match(r'pub enum (\w+)', gen_lines[i])
            if m:
                return m.group(1)
            m = re.match(r'impl Oracle for (\w+)', gen_lines[i])
            if m:
                return m.group(1)
        return None

    for profile in (['debug', 'release'] if tier == 'thorough' else ['debug']):
        p = subprocess.run(['cargo', 'build', '--offline'], cwd=CRATE, env=cargo_env(profile, 'target-c17'), capture_output=True, text=True, timeout=1800)
        if p.returncode != 0:
            # a well-formed declaration the derive does not accept (or miscompiles) is a violation
            errs = re.findall(r'error[^\n]*\n\s*--> src/gen.rs:(\d+):', p.stderr)
            names = sorted({enum_at(int(l)) for l in errs if enum_at(int(l))})
            msg = '\n'.join(p.stderr.split('\n')[:30])
            if names:
                for n in names[:5]:
                    failures.append(dict(property=pid, source='c17-compile', profile=profile, obligation='c17::%s[%s]#the derive accepts a well-formed declaration' % (n, profile),
                                         what='derive rejects or miscompiles a well-formed declaration', input=decl_text(decls[n]), verifier_output=msg))
            else:
                undecided.append('c17 crate does not build (%s): %s' % (profile, p.stderr[-600:]))
            continue
        binp = os.path.join(cargo_env(profile, 'target-c17')['CARGO_TARGET_DIR'], 'debug', 'bioseq-c17')
        r = subprocess.run([binp, 'all'], capture_output=True, text=True, timeout=600)
        try:
            nat = json.loads(r.stdout.strip().split('\n')[-1])
        except Exception:
            undecided.append('c17 native run produced no JSON: %s' % (r.stdout[-300:] + r.stderr[-300:]))
            continue
        ev['native'].append(dict(profile=profile, passed=nat['passed'], failures=len(nat['failures']), label='complete per declaration: all 256 bytes x table rows, executed natively'))
        obligations += nat['passed'] + len(nat['failures'])
        discharged += nat['passed']
        for f in nat['failures'][:8]:
            h = f.split()[0]
            n = next((k for k in decls if 'c17_' + k.lower() == h), None)
            failures.append(dict(property=pid, source='c17-native', profile=profile, obligation='c17::%s' % f, what=f,
                                 input=decl_text(decls[n]) if n else h, verifier_output=f))
    # Kani: every generated declaration, debug profile
    if not failures:
        hs = ['c17_' + n.lower() for n in decls]
        res, log, wall, cmd = kani_run.run_kani(hs, 'debug', repo, jobs=14, timeout=1500, crate='c17', prefix='gen::harness::', target='target-kani-c17')
        ev['kani_cmd'] = cmd
        ev['kani_wall_s'] = round(wall, 1)
        for h in hs:
            v = res[h]
            ev['kani'].append(dict(harness=h, status=v['status'], checks=v.get('checks'), time_s=v.get('time_s')))
            if v['status'] in ('undecided', 'unknown'):
                undecided.append('kani %s: no verdict (%s)' % (h, log[-300:]))
                continue
            if v.get('checks'):
                obligations += v['checks'][1]
                discharged += v['checks'][1] - v['checks'][0]
            if v['status'] == 'failed':
                n = next((k for k in decls if 'c17_' + k.lower() == h), None)
                pbs, _ = kani_run.playback(h, 'debug', repo, crate='c17', prefix='gen::harness::', target='target-kani-c17')
                pbs = [p for p in pbs if p['kind'] != 'cover']
                binp = os.path.join(cargo_env('debug', 'target-c17')['CARGO_TARGET_DIR'], 'debug', 'bioseq-c17')
                for fc in v['failed_checks']:
                    pb = pbs[0] if pbs else None
                    f = dict(property=pid, source='c17-kani', profile='debug', obligation='c17::%s#%s' % (h, fc['desc']), what=fc['desc'],
                             input=decl_text(decls[n]) if n else h, vals=pb['vals'] if pb else None, verifier_output=fc['desc'] + ' @ ' + fc['where'])
                    if pb:
                        args = [binp, 'replay', h] + [''.join('%02x' % b for b in vv) for vv in pb['vals']]
                        rr = subprocess.run(args, capture_output=True, text=True)
                        f['native_replay'] = rr.stdout.strip()[-300:]
                    failures.append(f)
    # rejection half: each malformed declaration alone, must be refused with the derive's own diagnostic
    rdir = os.path.join(CRATE, 'reject')
    for name, rc in meta['reject'].items():
        d = os.path.join(rdir, name)
        os.makedirs(os.path.join(d, 'src'), exist_ok=True)
        open(os.path.join(d, 'Cargo.toml'), 'w').write('[package]\nname = "c17-reject-%s"\nversion = "0.0.0"\nedition = "2021"\n[workspace]\n[dependencies]\nbio-seq = { path = "/repo/bio-seq" }\n' % name.replace('_', '-'))
        open(os.path.join(d, 'src', 'lib.rs'), 'w').write('use bio_seq::prelude::Codec;\n' + rc['source'] + '\n')
        shutil.copyfile(os.path.join(repo, 'Cargo.lock'), os.path.join(d, 'Cargo.lock'))
        p = subprocess.run(['cargo', 'check', '--offline'], cwd=d, env=cargo_env('debug', 'target-c17-reject'), capture_output=True, text=True, timeout=900)
        ok = p.returncode != 0 and rc['expect'] in p.stderr
        ev['rejects'].append(dict(case=name, rejected=p.returncode != 0, diagnostic_matches=rc['expect'] in p.stderr, label='compiler run (bounded_standins, not an obligation)'))
        if p.returncode == 0:
            failures.append(dict(property=pid, source='c17-reject', profile='debug', obligation='c17::reject::%s#a declaration that cannot be honoured is a compile-time error' % name,
                                 what='malformed declaration compiles', input=rc['source'], verifier_output='cargo check succeeded'))
        elif not ok:
            # the property asks for a compile-time error, not for a wording: a refusal with another message is recorded
            # (diagnostic_matches=false) and accepted as long as the control program of well-formed declarations built
            if not ('could not compile' in p.stderr and ev['native']):
                undecided.append('c17 reject case %s: cargo failed for another reason: %s' % (name, p.stderr[-300:]))
    shutil.rmtree(rdir, ignore_errors=True)
    return failures, undecided, ev, obligations, discharged
