"""Run Verus on generated units; attribute diagnostics to extracted functions; canary runs."""
import json
import os
import re
import subprocess
import sys
import time
from concurrent.futures import ThreadPoolExecutor

HERE = os.path.dirname(os.path.abspath(__file__))
ROOT = os.path.dirname(HERE)
sys.path.insert(0, os.path.join(ROOT, 'extract'))
from extract import Extractor, LostAnchor, Unsupported  # noqa: E402

DEFINITE = ('postcondition not satisfied', 'precondition not satisfied', 'assertion failed',
            'invariant not satisfied', 'possible arithmetic underflow/overflow',
            'possible division by zero', 'possible bit shift underflow/overflow',
            'loop invariant', 'decreases not satisfied', 'failed this postcondition',
            'could not prove termination', 'recommendation not met', 'cannot show invariant holds',
            'invariant not satisfied at end of loop body', 'invariant not satisfied before loop',
            'unreachable', 'panic')
UNDECIDED_MARKS = ('resource limit', 'rlimit', 'timed out', 'timeout', 'internal error', 'ICE', 'panicked at')


class UnitResult:
    def __init__(self):
        self.name = ''
        self.mode = ''
        self.path = ''
        self.status = 'ok'          # ok | failed | undecided
        self.reason = ''
        self.functions = []         # extractor metadata
        self.verified = 0
        self.errors = 0
        self.failed = []            # [{obligation, kind, line, function, message}]
        self.breakdown = []         # per function smt time
        self.smt_ms = 0
        self.total_ms = 0
        self.wall_s = 0.0
        self.stderr = ''
        self.canaries = {}          # fnid -> 'failed-as-expected' | 'PASSED' | 'error'
        self.cmd = ''
        self.assume_scan = 0


def parse_diags(stderr):
    """yield (severity, message, file, line) for each rustc-style diagnostic"""
    diags = []
    cur = None
    for line in stderr.split('\n'):
        m = re.match(r'^(error|warning|note)(\[E\d+\])?: (.*)$', line)
        if m:
            cur = dict(sev=m.group(1), code=m.group(2), msg=m.group(3), file=None, line=None, text=[line])
            diags.append(cur)
            continue
        if cur is not None:
            cur['text'].append(line)
            m = re.match(r'^\s*--> (.*?):(\d+):(\d+)', line)
            if m and cur['line'] is None:
                cur['file'], cur['line'] = m.group(1), int(m.group(2))
    return diags


def run_verus(path, extra=(), timeout=600):
    cmd = ['verus', path, '--output-json', '--time', '--multiple-errors', '30'] + list(extra)
    t0 = time.time()
    try:
        p = subprocess.run(cmd, capture_output=True, text=True, timeout=timeout, cwd=os.path.dirname(path))
        out, err, rc = p.stdout, p.stderr, p.returncode
    except subprocess.TimeoutExpired as e:
        out, err, rc = '', 'timed out after %ds' % timeout, 124
    return cmd, out, err, rc, time.time() - t0


def build_and_verify(repo, workdir, name, mode, roots, canaries=True, jobs=8):
    r = UnitResult()
    r.name, r.mode = name, mode
    os.makedirs(workdir, exist_ok=True)
    ex = Extractor(repo, os.path.join(ROOT, 'contracts'), mode)
    try:
        text, meta, linemap, names = ex.build_unit(roots)
    except (LostAnchor, Unsupported) as e:
        r.status, r.reason = 'undecided', 'extraction: %s' % e
        return r
    path = os.path.join(workdir, 'unit_%s_%s.rs' % (name, mode))
    open(path, 'w').write(text)
    r.path, r.functions = path, meta
    # mechanical scan for assume/admit in the generated unit
    r.assume_scan = len(re.findall(r'\b(assume|admit)\s*\(', text))
    cmd, out, err, rc, wall = run_verus(path)
    r.cmd, r.stderr, r.wall_s = ' '.join(cmd), err, wall
    try:
        j = json.loads(out)
    except Exception:
        r.status, r.reason = 'undecided', 'verus produced no JSON (rc=%d): %s' % (rc, err[-400:])
        return r
    vr = j.get('verification-results', {})
    r.verified, r.errors = vr.get('verified', 0), vr.get('errors', 0)
    tm = j.get('times-ms', {})
    r.total_ms = tm.get('total', 0)
    smt = tm.get('smt', {})
    r.smt_ms = smt.get('total', 0)
    for mod in smt.get('smt-run-module-times', []):
        for fb in mod.get('function-breakdown', []):
            r.breakdown.append(dict(function=fb['function'], ms=fb['time'], rlimit=fb.get('rlimit'), ok=fb['success']))
    diags = parse_diags(err)
    errs = [d for d in diags if d['sev'] == 'error' and not d['msg'].startswith('aborting due to')]
    if vr.get('encountered-vir-error') or (errs and r.verified + r.errors == 0) or (rc != 0 and not errs):
        r.status = 'undecided'
        r.reason = 'verus front-end: ' + '; '.join(d['msg'] for d in errs[:3]) if errs else 'verus rc=%d' % rc
        return r
    base = os.path.basename(path)
    for d in errs:
        low = d['msg'].lower()
        if any(u in low for u in UNDECIDED_MARKS):
            r.status = 'undecided'
            r.reason = d['msg']
            continue
        if d['code'] is not None or not any(k in low for k in DEFINITE):
            # compile error or unknown diagnostic: front-end failure
            r.status = 'undecided'
            r.reason = 'verus front-end: ' + d['msg']
            continue
        fnid = item = None
        if d['line'] and d['file'] and os.path.basename(d['file']) == base and d['line'] - 1 < len(linemap):
            item, fnid = linemap[d['line'] - 1]
        # the failing clause text
        clause = ''
        lines = text.split('\n')
        if d['line'] and d['line'] - 1 < len(lines):
            clause = lines[d['line'] - 1].strip()
        kind = ('overflow' if 'overflow' in low else 'post' if 'postcondition' in low else 'pre' if 'precondition' in low
                else 'assert' if 'assert' in low else 'invariant' if 'invariant' in low else 'other')
        r.failed.append(dict(obligation='%s#%s[%s]' % (fnid or item or '?', kind, clause[:100]), kind=kind, function=fnid,
                             item=item, line=d['line'], message=d['msg'], mode=mode, text='\n'.join(d['text'][:14])))
    if r.status != 'undecided' and (r.failed or r.errors):
        r.status = 'failed'
    if r.status == 'ok' and canaries:
        run_canaries(r, text, meta, linemap, workdir, jobs)
    return r


def run_canaries(r, text, meta, linemap, workdir, jobs):
    """For every extracted function with a contract: a twin unit in which exactly that function
    additionally `ensures false`; verus is run on that function only and MUST fail.
    A twin that verifies means contradictory requires/axioms (vacuity)."""
    lines = text.split('\n')
    fnids = []
    for f in meta:
        if f['contract_clauses'] > 0 and f['id'] not in fnids:
            fnids.append(f['id'])
    # global canary: a proof fn with ensures false after everything
    jobs_list = []
    for k, fid in enumerate(fnids + ['<global>']):
        if fid == '<global>':
            idx = max(i for i, l in enumerate(lines) if l.startswith('} // verus!'))
            twin = lines[:idx] + ['pub proof fn __canary_global() ensures false {}'] + lines[idx:]
            fname = '__canary_global'
        else:
            span = [i for i, (it, fn) in enumerate(linemap) if fn == fid]
            # find the line with the opening brace of the body: first line == '{' or starting with '{' after signature
            body_line = None
            for i in span:
                if lines[i].startswith('{') or re.match(r'^\s*\{\s*$', lines[i]):
                    body_line = i
                    break
            if body_line is None:
                # one-line signature+body: put ensures before first '{' occurrence at end of sig line
                r.canaries[fid] = 'error: no body line'
                continue
            has_ens = any(re.match(r'^\s*ensures\b', lines[i]) for i in span[:span.index(body_line)])
            ins = '    false,' if has_ens else '    ensures false,'
            # an `ensures` list may be followed by a decreases clause; insert right after the last ensures clause:
            # simplest: append a new ensures only if none, else add clause right after the `ensures` keyword line
            twin = list(lines)
            if has_ens:
                for i in span:
                    if re.match(r'^\s*ensures\b', twin[i]):
                        twin[i] = re.sub(r'^(\s*)ensures\b', r'\1ensures false,', twin[i], count=1)
                        break
            else:
                twin.insert(body_line, ins)
            fname = None
        p = os.path.join(workdir, 'canary_%s_%s_%d.rs' % (r.name, r.mode, k))
        open(p, 'w').write('\n'.join(twin) + '\n')
        jobs_list.append((fid, p))

    def one(job):
        fid, p = job
        cmd, out, err, rc, wall = run_verus(p)
        try:
            j = json.loads(out)
            vr = j['verification-results']
        except Exception:
            return fid, 'error: no json'
        if vr.get('encountered-vir-error'):
            return fid, 'error: vir'
        # must have at least one error and that error must be located in the twin function
        if vr.get('errors', 0) >= 1:
            return fid, 'failed-as-expected'
        return fid, 'PASSED'

    with ThreadPoolExecutor(max_workers=jobs) as tp:
        for fid, res in tp.map(one, jobs_list):
            r.canaries[fid] = res
    for fid, p in jobs_list:
        try:
            os.remove(p)
        except OSError:
            pass
    bad = {k: v for k, v in r.canaries.items() if v != 'failed-as-expected'}
    if bad:
        r.status = 'undecided'
        r.reason = 'vacuity canary did not fail: %s' % bad
