"""Run Verus on generated units; attribute diagnostics to extracted functions; canary runs."""
import json
import os
import re
import subprocess
import sys
import time
from concurrent.futures import ThreadPoolExecutor

HERE = os.path.dirname(os.path.abspath(__file__))
ROOT = os.path.dirname(HERE)
sys.path.insert(0, os.path.join(ROOT, 'extract'))
from extract import Extractor, LostAnchor, Unsupported  # noqa: E402

DEFINITE = ('postcondition not satisfied', 'precondition not satisfied', 'assertion failed',
            'invariant not satisfied', 'possible arithmetic underflow/overflow',
            'possible division by zero', 'possible bit shift underflow/overflow',
            'loop invariant', 'decreases not satisfied', 'failed this postcondition',
            'could not prove termination', 'recommendation not met', 'cannot show invariant holds',
            'invariant not satisfied at end of loop body', 'invariant not satisfied before loop',
            'unreachable', 'panic', 'requires not satisfied', 'simplifies to false', 'precondition not met')
UNDECIDED_MARKS = ('resource limit', 'rlimit', 'timed out', 'timeout', 'internal error', 'ICE', 'panicked at')


class UnitResult:
    def __init__(self):
        self.name = ''
        self.mode = ''
        self.path = ''
        self.status = 'ok'          # ok | failed | undecided
        self.reason = ''
        self.functions = []         # extractor metadata
        self.verified = 0
        self.errors = 0
        self.failed = []            # [{obligation, kind, line, function, message}]
        self.breakdown = []         # per function smt time
        self.smt_ms = 0
        self.total_ms = 0
        self.wall_s = 0.0
        self.stderr = ''
        self.canaries = {}          # fnid -> 'failed-as-expected' | 'PASSED' | 'error'
        self.cmd = ''
        self.assume_scan = 0
        self.trusted = set()    # assumed contracts (external_body / assume_specification) present in the units


def parse_diags(stderr):
    """yield (severity, message, file, line) for each rustc-style diagnostic"""
    diags = []
    cur = None
    for line in stderr.split('\n'):
        m = re.match(r'^(error|warning|note)(\[E\d+\])?: (.*)$', line)
        if m:
            cur = dict(sev=m.group(1), code=m.group(2), msg=m.group(3), file=None, line=None, text=[line])
            diags.append(cur)
            continue
        if cur is not None:
            cur['text'].append(line)
            m = re.match(r'^\s*--> (.*?):(\d+):(\d+)', line)
            if m and cur['line'] is None:
                cur['file'], cur['line'] = m.group(1), int(m.group(2))
    return diags


def run_verus(path, extra=(), timeout=600):
    cmd = ['verus', path, '--output-json', '--time', '--multiple-errors', '30'] + list(extra)
    t0 = time.time()
    try:
        p = subprocess.run(cmd, capture_output=True, text=True, timeout=timeout, cwd=os.path.dirname(path))
        out, err, rc = p.stdout, p.stderr, p.returncode
    except subprocess.TimeoutExpired as e:
        out, err, rc = '', 'timed out after %ds' % timeout, 124
    return cmd, out, err, rc, time.time() - t0


def _verify_one(repo, workdir, name, mode, roots, tag):
    """one micro-unit with dependency completion: when the front end reports a call to a method/function that is not in
    the unit but IS under contract in another item (a refactored body may call a sibling the deps= list did not foresee),
    that item is added and the unit is rebuilt - at most three rounds"""
    extra = []
    for _ in range(4):
        res = _verify_once(repo, workdir, name, mode, roots, tag, extra)
        r = res[0]
        if extra and r.status == 'failed':
            # the body calls a sibling that the contracts were not engineered for: a proof that does not go through over an
            # automatically added callee contract means "needs contract", not "bug" - exactly what the front-end error meant
            # before completion.  (Concrete failures still come from the stand-ins / Kani on the real crate.)
            r.reason = 'function now calls %s, outside its verified dependency set; the proof over the added contract(s) did not go through: %s' % (
                ', '.join(extra), '; '.join(f['obligation'][-120:] for f in r.failed[:2]))
            r.status, r.failed = 'undecided', []
            return res
        if r.status != 'undecided' or 'verus front-end' not in (r.reason or ''):
            return res
        ex = Extractor(repo, os.path.join(ROOT, 'contracts'), mode)
        added = False
        for m in re.finditer(r"no (?:method|function or associated item) named `(\w+)` found for (?:mutable |shared )?(?:reference|struct|type parameter|enum) `&?(?:mut )?(\w+)|cannot find function `(\w+)`", r.stderr or ''):
            fn, hint = (m.group(1), m.group(2)) if m.group(1) else (m.group(3), None)
            for it in ex.providers(fn, hint):
                if it not in extra and it not in roots:
                    extra.append(it)
                    added = True
        if not added:
            return res
    return res


def _verify_once(repo, workdir, name, mode, roots, tag, extra=()):
    """one micro-unit: closure of `roots` (+ completed dependencies), one verus run"""
    r = UnitResult()
    r.name, r.mode = name, mode
    ex = Extractor(repo, os.path.join(ROOT, 'contracts'), mode)
    try:
        text, meta, linemap, names = ex.build_unit(roots, extra)
    except (LostAnchor, Unsupported) as e:
        r.status, r.reason = 'undecided', 'extraction (%s): %s' % (tag, e)
        return r, None, None, None
    path = os.path.join(workdir, 'unit_%s_%s_%s.rs' % (name, mode, tag))
    open(path, 'w').write(text)
    r.path, r.functions = path, meta
    r.assume_scan = len(re.findall(r'\b(assume|admit)\s*\(', text))
    for m in re.finditer(r'#\[verifier::external_body\]\s*\n\s*(?:pub\s+)?(?:unsafe\s+)?(?:broadcast\s+)?(?:proof\s+)?fn\s+(\w+)', text):
        r.trusted.add('external_body fn ' + m.group(1))
    for m in re.finditer(r'assume_specification[^\[]*\[\s*([^\]]+?)\s*\]', text):
        r.trusted.add('assume_specification ' + m.group(1))
    for m in re.finditer(r'#\[verifier::external_body\]\s*\n(?:#\[[^\n]*\]\s*\n)*\s*pub struct (\w+)', text):
        r.trusted.add('opaque type ' + m.group(1))
    cmd, out, err, rc, wall = run_verus(path)
    r.cmd, r.stderr, r.wall_s = ' '.join(cmd), err, wall
    try:
        j = json.loads(out)
    except Exception:
        r.status, r.reason = 'undecided', 'verus produced no JSON for %s (rc=%d): %s' % (tag, rc, err[-400:])
        return r, text, meta, linemap
    vr = j.get('verification-results', {})
    r.verified, r.errors = vr.get('verified', 0), vr.get('errors', 0)
    tm = j.get('times-ms', {})
    r.total_ms = tm.get('total', 0)
    smt = tm.get('smt', {})
    r.smt_ms = smt.get('total', 0)
    crate = os.path.basename(path)[:-3]
    for mod in smt.get('smt-run-module-times', []):
        for fb in mod.get('function-breakdown', []):
            fn = fb['function']
            if fn.startswith(crate + '::'):
                fn = fn[len(crate) + 2:]
            r.breakdown.append(dict(function=fn, ms=fb['time'], rlimit=fb.get('rlimit'), ok=fb['success']))
    diags = parse_diags(err)
    errs = [d for d in diags if d['sev'] == 'error' and not d['msg'].startswith('aborting due to')]
    # a failing `assert(..) by(compute)` over table data copied from the repository (rule R15) is a failed
    # obligation about the repository's data, not a front-end problem
    data_ids = [f['id'] for f in meta if 'R15' in f.get('rules', [])]
    comp = [d for d in errs if 'simplifies to false' in d['msg']]
    if comp and data_ids:
        lines = text.split('\n')
        for d in comp:
            clause = lines[d['line'] - 1].strip() if d['line'] and d['line'] - 1 < len(lines) else ''
            # several tables in one unit: name the one whose function name (first word) occurs in the failing assertion
            did = next((i for i in data_ids if re.search(r'fn (\w+?)_', i) and re.search(r'fn (\w+?)_', i).group(1) in clause), data_ids[0])
            r.failed.append(dict(obligation='%s#data[%s]' % (did, clause[:100]), kind='data', function=did, item=None,
                                 line=d['line'], message=d['msg'], mode=mode, text='\n'.join(d['text'][:14])))
        r.status = 'failed'
        r.errors = max(r.errors, len(comp))
        return r, text, meta, linemap
    if vr.get('encountered-vir-error') or (errs and r.verified + r.errors == 0) or (rc != 0 and not errs):
        r.status = 'undecided'
        r.reason = ('verus front-end (%s): ' % tag) + ('; '.join(d['msg'] for d in errs[:3]) if errs else 'rc=%d' % rc)
        return r, text, meta, linemap
    base = os.path.basename(path)
    lines = text.split('\n')
    for d in errs:
        low = d['msg'].lower()
        if any(u in low for u in UNDECIDED_MARKS):
            r.status = 'undecided'
            r.reason = d['msg']
            continue
        if d['code'] is not None or not any(k in low for k in DEFINITE):
            r.status = 'undecided'
            r.reason = 'verus front-end (%s): %s' % (tag, d['msg'])
            continue
        fnid = item = None
        if d['line'] and d['file'] and os.path.basename(d['file']) == base and d['line'] - 1 < len(linemap):
            item, fnid = linemap[d['line'] - 1]
        if fnid is None:
            # the primary span may be a trait-level `ensures` (contract stated on the trait declaration);
            # the diagnostic then also shows the implementing function ("at the end of the function body"):
            # attribute the failure to the first extracted function any gutter line of the diagnostic lies in
            for tl in d['text']:
                mm = re.match(r'^\s*(\d+) \|', tl)
                if mm:
                    ln = int(mm.group(1))
                    if 0 < ln <= len(linemap) and linemap[ln - 1][1]:
                        item, fnid = linemap[ln - 1]
                        break
        clause = lines[d['line'] - 1].strip() if d['line'] and d['line'] - 1 < len(lines) else ''
        kind = ('overflow' if 'overflow' in low else 'post' if 'postcondition' in low else 'pre' if 'precondition' in low
                else 'assert' if 'assert' in low else 'invariant' if 'invariant' in low else 'other')
        rec = dict(obligation='%s#%s[%s]' % (fnid or item or '?', kind, clause[:100]), kind=kind, function=fnid,
                   item=item, line=d['line'], message=d['msg'], mode=mode, text='\n'.join(d['text'][:14]))
        if fnid is None:
            # a failing lemma / shim item is pure specification text of /verif, not repository code:
            # a proof-engineering failure, never a property violation
            r.status = 'undecided'
            r.reason = 'proof obligation outside repository text failed (%s): %s' % (item, clause[:80])
        else:
            r.failed.append(rec)
    if r.status != 'undecided' and (r.failed or r.errors):
        r.status = 'failed'
    return r, text, meta, linemap


def build_and_verify(repo, workdir, name, mode, roots, canaries=True, jobs=14):
    """Every root item becomes its own micro-unit (its dependency closure in one file): Verus' per-file
    cost grows super-linearly with file size, and micro-units run in parallel.  Results are merged."""
    os.makedirs(workdir, exist_ok=True)
    agg = UnitResult()
    agg.name, agg.mode = name, mode
    t0 = time.time()
    parts = {}
    with ThreadPoolExecutor(max_workers=jobs) as tp:
        futs = {root: tp.submit(_verify_one, repo, workdir, name, mode, [root], root.replace('.', '_')) for root in roots}
        for root, fu in futs.items():
            parts[root] = fu.result()
    seen_fn = {}
    bd = {}
    cmds = []
    for root in roots:
        r, text, meta, linemap = parts[root]
        cmds.append(r.cmd)
        agg.smt_ms += r.smt_ms
        agg.total_ms = max(agg.total_ms, r.total_ms)
        agg.assume_scan += r.assume_scan
        agg.trusted |= r.trusted
        for f in r.functions:
            if f['id'] not in seen_fn:
                seen_fn[f['id']] = f
        for b in r.breakdown:
            cur = bd.get(b['function'])
            if cur is None or (cur['ok'] and not b['ok']):
                bd[b['function']] = b
        if r.status == 'undecided':
            agg.status = 'undecided'
            agg.reason = (agg.reason + ' | ' if agg.reason else '') + r.reason
        for fl in r.failed:
            if fl['obligation'] not in [x['obligation'] for x in agg.failed]:
                agg.failed.append(fl)
    agg.functions = list(seen_fn.values())
    agg.breakdown = list(bd.values())
    agg.verified = sum(1 for b in agg.breakdown if b['ok'])
    agg.errors = sum(1 for b in agg.breakdown if not b['ok'])
    agg.cmd = 'verus work/<id>/unit_%s_%s_<root>.rs --output-json --time --multiple-errors 30   (one micro-unit per root: %s)' % (name, mode, ', '.join(roots))
    if agg.status != 'undecided' and agg.failed:
        agg.status = 'failed'
    if agg.status == 'ok' and canaries:
        run_canaries(agg, repo, workdir, parts, jobs)
    agg.wall_s = time.time() - t0
    return agg


def run_canaries(agg, repo, workdir, parts, jobs):
    """For every extracted function with a contract in a root item: a twin micro-unit in which exactly
    that function additionally `ensures false`; it MUST fail.  A twin that verifies means contradictory
    requires/axioms (vacuity).  Plus one global canary (`proof fn ... ensures false {}`) per root."""
    jobs_list = []
    k = 0
    for root, (r, text, meta, linemap) in parts.items():
        if text is None:
            continue
        lines = text.split('\n')
        root_fns = []
        for i, (it, fn) in enumerate(linemap):
            if it == root and fn and fn not in root_fns:
                root_fns.append(fn)
        metas = {f['id']: f for f in meta}
        targets = [f for f in root_fns if metas.get(f, {}).get('contract_clauses', 0) > 0]
        for fid in targets + ['<global:%s>' % root]:
            k += 1
            if fid.startswith('<global'):
                idx = max(i for i, l in enumerate(lines) if l.startswith('} // verus!'))
                twin = lines[:idx] + ['pub proof fn __canary_global() ensures false {}'] + lines[idx:]
            else:
                span = [i for i, (it, fn) in enumerate(linemap) if fn == fid]
                body_line = None
                for i in span:
                    if lines[i].startswith('{') or re.match(r'^\s*\{\s*$', lines[i]):
                        body_line = i
                        break
                if body_line is None:
                    agg.canaries[fid] = 'error: no body line'
                    continue
                twin = list(lines)
                done = False
                for i in span[:span.index(body_line)]:
                    if re.match(r'^\s*ensures\b', twin[i]):
                        twin[i] = re.sub(r'^(\s*)ensures\b', r'\1ensures false,', twin[i], count=1)
                        done = True
                        break
                if not done:
                    twin.insert(body_line, '    ensures false,')
            p = os.path.join(workdir, 'canary_%s_%s_%d.rs' % (agg.name, agg.mode, k))
            open(p, 'w').write('\n'.join(twin) + '\n')
            jobs_list.append((fid, p))

    def one(job):
        fid, p = job
        # the global canary only needs its own proof function checked (the rest of the file was just verified)
        extra = ['--verify-root', '--verify-function', '__canary_global'] if fid.startswith('<global') else []
        cmd, out, err, rc, wall = run_verus(p, extra)
        try:
            vr = json.loads(out)['verification-results']
        except Exception:
            return fid, 'error: no json'
        if vr.get('encountered-vir-error'):
            return fid, 'error: vir'
        if vr.get('errors', 0) >= 1:
            return fid, 'failed-as-expected'
        return fid, 'PASSED'

    with ThreadPoolExecutor(max_workers=jobs) as tp:
        for fid, res in tp.map(one, jobs_list):
            agg.canaries[fid] = res
    for fid, p in jobs_list:
        try:
            os.remove(p)
        except OSError:
            pass
    bad = {k: v for k, v in agg.canaries.items() if v != 'failed-as-expected'}
    if bad:
        agg.status = 'undecided'
        agg.reason = 'vacuity canary did not fail: %s' % bad
