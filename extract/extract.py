"""Mechanical extraction of bio-seq function text into single-file Verus units (DESIGN §3.2).

A unit is assembled from *items* defined in contracts/*.vrs.  An item is Verus text (shim,
spec vocabulary, lemmas) interleaved with directives that pull text out of /repo's current
working tree:

  //@item NAME [deps=a,b]          ... //@enditem
  //@struct file=F kind=struct|enum name=N            copy a type declaration (R1,R4)
  //@extract file=F impl=`HDR` fn=NAME [ret=r] [nth=k] [wrap=yes] [rehome=`HDR2`] [assoc=yes]
  //@            [subst=`R`=>`Range<usize>`] [rename=newname] [modes=T|R]
  //@| requires[T] ...             contract lines (R2), optional [T]/[R] mode filter
  //@ghost at=start|before=`stmt`|after=`stmt`|loop=`loop head` [modes=T|R]
  //@| proof { ... }               ghost lines for that splice (R3)
  //@end

Everything between the signature and the closing brace of an extracted function is the
repository's text, modified only by rules R4-R7 below.  The extractor records file, line span,
sha256 and the rules that fired for every extracted function.
"""
import hashlib
import json
import os
import re
import sys

sys.path.insert(0, os.path.dirname(__file__))
from rsscan import Source, ScanError, norm_ws, mask_noncode, match_brace  # noqa: E402


class LostAnchor(Exception):
    """an anchor (file / impl header / fn name / statement pattern) no longer matches"""


class Unsupported(Exception):
    """the extracted text contains something outside rules R1-R9"""


def parse_kv(line):
    """parse  key=value  pairs; values may be `backquoted` (may contain spaces)"""
    out = {}
    for m in re.finditer(r'(\w+)=(`[^`]*`(?:=>`[^`]*`)?|\S+)', line):
        v = m.group(2)
        out.setdefault(m.group(1), [])
        out[m.group(1)].append(v)
    flat = {}
    for k, vs in out.items():
        if k in ('subst', 'callrename', 'annotate', 'closure_contract', 'static_read'):
            flat[k] = []
            for v in vs:
                a, b = v.split('`=>`')
                flat[k].append((a.strip('`'), b.strip('`')))
        else:
            v = vs[-1]
            flat[k] = v[1:-1] if v.startswith('`') else v
    return flat



def r10_const_generic(text, impl_header, rules):
    """R10: the const-generic block expression `{ (Self::BITS / usize::BITS) as usize }` (integral64.rs) is
    evaluated for the impl's Self type: inside verus! arithmetic in const position is spec arithmetic
    and cannot be const-evaluated.  Self::BITS is the inherent u32 constant of the integer type."""
    m = re.search(r'for\s+(usize|u64|u128|u32)\b', impl_header or '')
    pat = re.compile(r'\{\s*\(\s*Self::BITS\s*/\s*usize::BITS\s*\)\s*as\s+usize\s*\}')
    if not pat.search(text):
        return text
    if not m:
        raise Unsupported('R10: const-generic expression outside an integer impl')
    bits = {'usize': 64, 'u64': 64, 'u128': 128, 'u32': 32}[m.group(1)]
    rules.append('R10')
    return pat.sub(str(bits // 64), text)

GHOST_OK = re.compile(r'^\s*(proof\s*\{|assert\b|assert\(|invariant\b|invariant_except_break\b|decreases\b|ensures\b|\}|//|$)')


class Extractor:
    def __init__(self, repo, contracts_dir, mode='T'):
        self.repo = repo
        self.cdir = contracts_dir
        self.mode = mode
        self.sources = {}
        self.items = {}      # name -> dict(deps, lines:[(kind,payload)], file)
        self.order = []
        self.load_items()

    # ------------------------------------------------------------------ items
    def load_items(self):
        for fn in sorted(os.listdir(self.cdir)):
            if not fn.endswith('.vrs'):
                continue
            cur = None
            for ln, line in enumerate(open(os.path.join(self.cdir, fn), encoding='utf-8').read().split('\n'), 1):
                s = line.strip()
                if s.startswith('//@item '):
                    kv = parse_kv(s)
                    name = s.split()[1]
                    cur = dict(name=name, deps=[d for d in kv.get('deps', '').split(',') if d],
                               lines=[], file=fn, line=ln)
                    if name in self.items:
                        raise Exception('duplicate item ' + name)
                    self.items[name] = cur
                    self.order.append(name)
                elif s.startswith('//@enditem'):
                    cur = None
                elif cur is not None:
                    cur['lines'].append(line)
                elif s and not s.startswith('//'):
                    raise Exception('%s:%d: text outside an item' % (fn, ln))

    def closure(self, roots):
        seen = []
        def visit(n):
            if n in seen:
                return
            if n not in self.items:
                raise Exception('unknown item ' + n)
            for d in self.items[n]['deps']:
                visit(d)
            seen.append(n)
        for r in roots:
            visit(r)
        # keep definition order (file order) for stable output
        return [n for n in self.order if n in seen]

    def src(self, rel):
        if rel not in self.sources:
            p = os.path.join(self.repo, rel)
            if not os.path.exists(p):
                raise LostAnchor('file %s missing' % rel)
            try:
                self.sources[rel] = Source(p)
            except ScanError as e:
                raise LostAnchor('cannot scan %s: %s' % (rel, e))
        return self.sources[rel]

    # ------------------------------------------------------------------ rules
    def r4_struct(self, text):
        # drop doc comments and attributes, widen visibilities
        out = []
        for line in text.split('\n'):
            s = line.strip()
            if s.startswith('///') or s.startswith('#['):
                continue
            out.append(line)
        t = '\n'.join(out)
        t = re.sub(r'\bpub\s*\(\s*crate\s*\)', 'pub', t)
        # private fields -> pub (only inside braces of a struct)
        def widen(m):
            return m.group(1) + 'pub ' + m.group(2)
        t = re.sub(r'(?m)^(\s+)(?!pub\b)(\w+\s*:)', widen, t)
        if not t.lstrip().startswith('pub'):
            t = 'pub ' + t.lstrip()
        return t

    def rewrite_body(self, body, rules, mode):
        """R4 (attrs/docs), R5, R6, R7 on a function body text (includes braces)."""
        # R4: attributes and doc comments inside bodies
        new = re.sub(r'(?m)^\s*#\[[^\]]*\]\s*\n', '', body)
        new = re.sub(r'(?m)^\s*///.*\n', '', new)
        if new != body:
            rules.append('R4')
        body = new
        # R5 transparent cast
        # (the name of the pointer local and of the codec parameter are free: a renamed local is the same idiom)
        pat = re.compile(
            r'let\s+(\w+)\s*:\s*\*const\s+Bs\s*=\s*ptr::from_ref::<Bs>\(')
        m = pat.search(body)
        if m:
            masked = mask_noncode(body)
            close = match_brace(masked, m.end() - 1)
            expr = body[m.end():close]
            rest = body[close + 1:]
            m2 = re.match(r'\s*;\s*unsafe\s*\{\s*&\*\(' + re.escape(m.group(1)) + r'\s+as\s+\*const\s+SeqSlice<(\w+)>\)\s*\}', rest)
            if not m2:
                raise Unsupported('R5: pointer cast idiom has an unexpected tail')
            body = body[:m.start()] + 'SeqSlice::<' + m2.group(1) + '>::__from_bs(' + expr + ')' + rest[m2.end():]
            rules.append('R5')
        if re.search(r'\*const\b|\*mut\b|transmute', body):
            raise Unsupported('raw pointer / transmute outside the R5 idiom')
        # R12 inference hint: `x.view_bits()` -> `x.view_bits::<Order>()`; the shim's Bs is not generic in the
        # bit order (the crate fixes `type Order = Lsb0`), so the order cannot be inferred from the target type
        new = re.sub(r'\.view_bits\(\)', '.view_bits::<Order>()', body)
        if new != body:
            rules.append('R12')
            body = new
        # R7 ref patterns in Bound matches
        new = re.sub(r'Bound::(Included|Excluded)\(&(\w+)\)\s*=>\s*\2\b', r'Bound::\1(\2) => *\2', body)
        if new != body:
            rules.append('R7')
            body = new
        # R6 panic forms
        if mode == 'R':
            body, fired = self.r6(body)
            if fired:
                rules.append('R6')
        return body

    def r6(self, body):
        fired = False
        out = []
        i = 0
        masked = mask_noncode(body)
        pat = re.compile(r'\b(debug_assert|assert|panic|todo|unimplemented|unreachable)!\s*\(')
        while True:
            m = pat.search(masked, i)
            if not m:
                out.append(body[i:])
                break
            fired = True
            out.append(body[i:m.start()])
            close = match_brace(masked, m.end() - 1)
            args = body[m.end():close]
            margs = masked[m.end():close]
            kind = m.group(1)
            # statement terminator
            j = close + 1
            if kind == 'debug_assert':
                # deleted (release profile), including the trailing ';'
                mm = re.match(r'\s*;', body[j:])
                j += mm.end() if mm else 0
            elif kind == 'assert':
                # first top-level comma separates the condition from the message
                depth = 0
                cut = len(args)
                for k, ch in enumerate(margs):
                    if ch in '([{':
                        depth += 1
                    elif ch in ')]}':
                        depth -= 1
                    elif ch == ',' and depth == 0:
                        cut = k
                        break
                out.append('if !(' + args[:cut].strip() + ') { __refuse() }')
                mm = re.match(r'\s*;', body[j:])
                j += mm.end() if mm else 0
            else:
                out.append('__refuse()')
            i = j
        return ''.join(out), fired

    # ------------------------------------------------------------------ extraction
    def extract_fn(self, kv, contract, ghosts, meta):
        rel = kv['file']
        src = self.src(rel)
        rules = ['R1']
        if 'impl' in kv:
            hits = src.find_impl(kv['impl'])
            if not hits:
                raise LostAnchor('%s: no impl matching `%s`' % (rel, kv['impl']))
            nth = int(kv.get('nthimpl', 0))
            if len(hits) > 1 and 'nthimpl' not in kv:
                raise LostAnchor('%s: %d impls match `%s`' % (rel, len(hits), kv['impl']))
            hdr, hstart, hopen, hclose = hits[nth]
            fns = src.find_fn(kv['fn'], hopen + 1, hclose)
        else:
            hdr, hopen, hclose = None, None, None
            fns = src.find_fn(kv['fn'], 0, src.limit)
        if not fns:
            raise LostAnchor('%s: fn %s not found in `%s`' % (rel, kv['fn'], kv.get('impl', '<top level>')))
        f = fns[int(kv.get('nth', 0))]
        if f['body_open'] is None:
            raise LostAnchor('%s: fn %s has no body' % (rel, kv['fn']))
        sig = src.text[f['sig_start']:f['body_open']]
        body = src.text[f['body_open']:f['body_close'] + 1]
        orig = src.text[f['sig_start']:f['body_close'] + 1]
        sha = hashlib.sha256(orig.encode()).hexdigest()
        l0, l1 = src.line_of(f['sig_start']), src.line_of(f['body_close'])

        # --- signature: R4 visibility, R2 named return
        sig = re.sub(r'\bpub\s*\(\s*crate\s*\)', 'pub', sig).rstrip()
        ret = kv.get('ret')
        if ret:
            msig = mask_noncode(sig)
            # find the '->' at paren depth 0
            depth = 0
            arrow = -1
            for k in range(len(msig) - 1):
                ch = msig[k]
                if ch in '(<[':
                    depth += 1
                elif ch in ')]':
                    depth -= 1
                elif ch == '>' and msig[k - 1] != '-' and msig[k-1] != '=':
                    depth -= 1
                if ch == '-' and msig[k + 1] == '>' and depth == 0:
                    arrow = k
                    break
            if arrow < 0:
                raise LostAnchor('%s: fn %s: no return type to name' % (rel, kv['fn']))
            rt = sig[arrow + 2:]
            # split off a where clause
            mw = re.search(r'\bwhere\b', rt)
            where = ''
            if mw:
                where = ' ' + rt[mw.start():]
                rt = rt[:mw.start()]
            sig = sig[:arrow] + '-> (' + ret + ': ' + rt.strip() + ')' + where
            rules.append('R2')
        elif contract:
            rules.append('R2')
        for a, b in kv.get('subst', []):
            sig2 = re.sub(r'\b' + re.escape(a) + r'\b', b, sig)
            # drop the generic parameter declaration `<R: RangeBounds<usize>>` if it was instantiated
            sig2 = re.sub(r'<\s*' + re.escape(b) + r'\s*:\s*[^<>]*(<[^<>]*>)?\s*>', '', sig2)
            if sig2 == sig:
                raise LostAnchor('%s: fn %s: type parameter %s not found' % (rel, kv['fn'], a))
            sig = sig2
            rules.append('R1-inst(%s:=%s)' % (a, b))
        if 'selfty' in kv:
            # R8: `impl Trait for &'a X { fn f(self) }` re-homed on X: the receiver type is written out
            sig2 = re.sub(r'\(\s*self\b', '(self: ' + kv['selfty'], sig, count=1)
            if sig2 == sig:
                raise LostAnchor('%s: fn %s: no by-value self receiver' % (rel, kv['fn']))
            sig = sig2
            rules.append('R8-self')
        if 'rename' in kv:
            sig = re.sub(r'\bfn\s+' + re.escape(kv['fn']) + r'\b', 'fn ' + kv['rename'], sig, count=1)
            rules.append('rename')

        # --- ghost splices (R3)
        # metavariables: `$x` in an anchor matches any identifier and binds it; `$x` in the spliced ghost text is replaced
        # by that identifier, so a renamed local does not lose the anchor (the repository text is never rewritten)
        binds = {}

        def anchor_rx(pat):
            parts = []
            for tok in re.findall(r'\$\w+|\w+|[^\w\s]', pat):
                if tok.startswith('$'):
                    nm = tok[1:]
                    if nm in binds:
                        parts.append(re.escape(binds[nm]))
                    elif ('(?P<mv_%s>' % nm) in ''.join(parts):
                        parts.append('(?P=mv_%s)' % nm)
                    else:
                        parts.append('(?P<mv_%s>\\w+)' % nm)
                else:
                    parts.append(re.escape(tok))
            return re.compile(r'\s*'.join(parts))

        def subst_mv(text):
            def rp(m):
                if m.group(1) not in binds:
                    raise LostAnchor('%s: fn %s: metavariable $%s is not bound by any anchor' % (rel, kv['fn'], m.group(1)))
                return binds[m.group(1)]
            return re.sub(r'\$(\w+)', rp, text)

        for g in ghosts:
            if g['kind'] == 'bind':
                masked = mask_noncode(body)
                ms = [m for m in anchor_rx(g['pat']).finditer(body) if masked[m.start()] == body[m.start()] or not body[m.start()].strip()]
                if not ms:
                    raise LostAnchor('%s: fn %s: bind anchor `%s` not found' % (rel, kv['fn'], g['pat']))
                for k2, v2 in ms[0].groupdict().items():
                    binds[k2[3:]] = v2
                continue
            if g['modes'] and self.mode not in g['modes']:
                continue
            text = '\n'.join(g['lines'])
            if g['kind'] in ('start', 'end'):
                text = subst_mv(text)
            if g['kind'] == 'start':
                body = '{\n' + text + body[1:]
            elif g['kind'] == 'end':
                body = body[:-1] + text + '\n}'
            else:
                pat = g['pat']
                masked = mask_noncode(body)
                # match ignoring whitespace differences
                rx = anchor_rx(pat)
                ms = list(rx.finditer(body))
                ms = [m for m in ms if masked[m.start()] == body[m.start()] or not body[m.start()].strip()]
                if not ms:
                    raise LostAnchor('%s: fn %s: ghost anchor `%s` not found' % (rel, kv['fn'], pat))
                m = ms[int(g.get('nth', 0))]
                for k2, v2 in m.groupdict().items():
                    binds[k2[3:]] = v2
                text = subst_mv(text)
                if g['kind'] == 'before':
                    body = body[:m.start()] + text + '\n' + body[m.start():]
                elif g['kind'] == 'after':
                    body = body[:m.end()] + '\n' + text + '\n' + body[m.end():]
                elif g['kind'] == 'loop':
                    k = m.end()
                    depth = 0
                    while k < len(masked):
                        ch = masked[k]
                        if ch in '([':
                            depth += 1
                        elif ch in ')]':
                            depth -= 1
                        elif ch == '{' and depth == 0:
                            break
                        k += 1
                    body = body[:k] + '\n' + text + '\n' + body[k:]
                elif g['kind'] == 'name_iter':
                    # `for x in E` -> `for x in it: E` (ghost name for the prophetic iterator)
                    mm = re.match(r'(for\s+(?:\w+|\([^)]*\))\s+in\s+)', body[m.start():])
                    if not mm:
                        raise LostAnchor('name_iter anchor is not a for loop')
                    body = body[:m.start() + mm.end()] + text.strip() + ': ' + body[m.start() + mm.end():]
            rules.append('R3')
        body = self.rewrite_body(body, rules, 'R' if kv.get('r6') == 'always' else self.mode)
        for cname in [c for c in kv.get('inlineconst', '').split(',') if c]:
            # R11: an associated const of the impl'd type is inlined at its use sites (definition copied
            # from the repository) so that its arithmetic is checked under the caller's preconditions
            defs = []
            for h2 in src.find_impl(kv['impl']):
                mm = re.search(r'(?m)^\s*(?:pub\s+)?const\s+' + re.escape(cname) + r'\s*:\s*[^=;]+=\s*([^;]+);', src.masked[h2[2]:h2[3]])
                if mm:
                    defs.append(src.text[h2[2] + mm.start(1):h2[2] + mm.end(1)].strip())
            if len(defs) != 1:
                raise LostAnchor('%s: const %s: %d definitions' % (rel, cname, len(defs)))
            body2 = re.sub(r'\bSelf::' + re.escape(cname) + r'\b', '(' + defs[0] + ')', body)
            if body2 != body:
                rules.append('R11(%s)' % cname)
            body = body2
        if hdr:
            # R11 (automatic form): `Self::NAME` where NAME is an associated const defined ONCE in an inherent impl of the same
            # type, in the same file, is inlined - only when every single-letter generic the definition mentions is also a
            # generic parameter of the using impl (rustc substitutes the impl's own parameters; textual inlining is the same
            # thing exactly when the names coincide).  Lets `Self::BITS` be used where `K * A::BITS as usize` was written.
            def impl_type(h):
                hh = h.split(' for ')[-1] if ' for ' in h else re.sub(r'^impl\s*(<[^{]*?>)?\s*(?=[A-Za-z_&])', '', re.sub(r'^impl\s*<(?:[^<>]|<[^<>]*>)*>\s*', '', h))
                mt = re.match(r'\s*&?\s*(?:\'\w+\s+)?(\w+)', hh)
                return mt.group(1) if mt else None
            tname = impl_type(hdr)
            mg = re.match(r'impl\s*<((?:[^<>]|<[^<>]*>)*)>', hdr)
            params = set(re.findall(r'(?:const\s+)?(\b[A-Z]\w*)\s*(?::|,|$)', mg.group(1))) if mg else set()
            for cname in sorted(set(re.findall(r'\bSelf::([A-Z][A-Z0-9_]*)\b(?!\s*(?:\(|::|<))', mask_noncode(body)))):
                defs = []
                for h2 in src.impls():
                    if ' for ' in h2[0] or impl_type(h2[0]) != tname:
                        continue
                    mm = re.search(r'(?m)^\s*(?:pub\s+)?const\s+' + re.escape(cname) + r'\s*:\s*[^=;]+=\s*([^;]+);', src.masked[h2[2]:h2[3]])
                    if mm:
                        defs.append(src.text[h2[2] + mm.start(1):h2[2] + mm.end(1)].strip())
                if len(defs) == 1 and set(re.findall(r'\b([A-Z])\b', defs[0])) <= params:
                    body = re.sub(r'\bSelf::' + re.escape(cname) + r'\b(?!\s*(?:\(|::|<))', '(' + defs[0] + ')', body)
                    rules.append('R11(%s)' % cname)
        sig = r10_const_generic(sig, hdr, rules)
        body = r10_const_generic(body, hdr, rules)
        for a, b in kv.get('annotate', []):
            # R14: a type annotation is added to a `let` (rustc checks it against the inferred type, so it
            # cannot change the meaning); needed when a spliced invariant mentions the variable before
            # inference has fixed its type
            ms = list(anchor_rx(a).finditer(body))
            if len(ms) != 1:
                raise LostAnchor('%s: fn %s: annotate anchor `%s` matches %d times' % (rel, kv['fn'], a, len(ms)))
            for k2, v2 in ms[0].groupdict().items():
                binds[k2[3:]] = v2
            body = body[:ms[0].start()] + subst_mv(b) + body[ms[0].end():]
            rules.append('R14')
        for a, b in kv.get('closure_contract', []):
            # R2 for closures: `|| BODY` -> `|| -> (e: T) ensures ... { BODY }`; the closure body must reappear verbatim
            inner = a.split('||', 1)[1].strip()
            if body.count(a) != 1 or inner not in b or not b.lstrip().startswith('||'):
                raise LostAnchor('%s: fn %s: closure anchor `%s` not found exactly once' % (rel, kv['fn'], a))
            body = body.replace(a, b)
            rules.append('R2-closure')
        for a, b in kv.get('static_read', []):
            # R16: `STATIC.get_or_init(init_fn)` (a lazily initialised static) is replaced by a trusted accessor whose
            # contract says the static holds what its initialiser returns
            if a not in body:
                raise LostAnchor('%s: fn %s: static read `%s` not found' % (rel, kv['fn'], a))
            body = body.replace(a, b)
            rules.append('R16')
        if kv.get('desugar_bitand') == 'yes':
            # R13: operator desugaring `a & b` -> `a.bitand(b)` (the language definition of `&`); this Verus
            # build hits an internal error (codegen_select_candidate) on operator syntax over `&T: BitAnd`
            body2 = re.sub(r'(?P<lhs>[\w\.]+(?:\(\))?)\s*&\s*(?P<rhs>\w+)\s*==', r'\g<lhs>.bitand(\g<rhs>) ==', body)
            if body2 == body:
                raise LostAnchor('%s: fn %s: no `a & b ==` expression to desugar' % (rel, kv['fn']))
            body = body2
            rules.append('R13')
        # calls to a generic helper that was instantiated per type: follow the instantiation
        for a, b in kv.get('callrename', []):
            body2 = re.sub(r'\b' + re.escape(a) + r'\b', b, body)
            if body2 == body:
                raise LostAnchor('%s: fn %s: call to %s not found' % (rel, kv['fn'], a))
            body = body2
            rules.append('R1-inst-call(%s->%s)' % (a, b))
        rules = sorted(set(rules), key=rules.index)

        eff_mode = self.mode
        contract_only = False
        if kv.get('bodymode') and kv['bodymode'] != self.mode:
            # the body is verified in the other mode's unit; here only its contract is used
            eff_mode = kv['bodymode']
            contract_only = True
            rules.append('contract-only(body verified in %s-mode unit)' % eff_mode)
        cl = [c for (modes, c) in contract if not modes or eff_mode in modes]
        if contract_only:
            text = '#[verifier::external_body]\n' + sig + '\n' + ''.join('    ' + c + '\n' for c in cl) + '{ unimplemented!() }'
        else:
            text = sig + '\n' + ''.join('    ' + c + '\n' for c in cl) + body

        # --- wrapping in the impl header
        if kv.get('wrap', 'yes') == 'yes' and hdr is not None:
            header = src.text[hits[nth][1]:hopen].rstrip()
            header = '\n'.join(l for l in header.split('\n') if not l.strip().startswith('///') and not l.strip().startswith('#['))
            if 'rehome' in kv:
                header = kv['rehome']
                rules.append('R8')
                # associated types of the trait impl are written out (`Self::Item` -> its definition)
                for m in re.finditer(r'(?m)^\s*type\s+(\w+)\s*=\s*([^;]+);', src.text[hopen:hclose]):
                    text = re.sub(r'\bSelf::' + m.group(1) + r'\b', m.group(2).strip(), text)
            assoc = ''
            if kv.get('assoc', 'no') == 'yes':
                for m in re.finditer(r'(?m)^\s*type\s+\w+\s*=\s*[^;]+;', src.masked[hopen:hclose]):
                    seg = src.masked[hopen:hopen + m.start()]
                    if seg.count('{') - seg.count('}') == 1:
                        assoc += '    ' + src.text[hopen + m.start():hopen + m.end()].strip() + '\n'
            text = header + ' {\n' + assoc + text + '\n}'
        meta.append(dict(id='%s::%s::%s' % (rel.split('/src/')[-1], norm_ws(kv.get('impl', '')), kv.get('rename', kv['fn'])),
                         file=rel, lines=[l0, l1], sha256=sha, rules=rules, mode=self.mode,
                         contract_clauses=0 if contract_only else len(cl), contract_only=contract_only))
        return text

    def extract_struct(self, kv, meta):
        src = self.src(kv['file'])
        span = src.find_item(kv['kind'], kv['name'])
        if not span:
            raise LostAnchor('%s: %s %s not found' % (kv['file'], kv['kind'], kv['name']))
        text = src.text[span[0]:span[1]]
        if 'derives' in kv:
            # R4 drops #[derive(..)]; the derived impls are ASSUMED field-wise.  That assumption is tied to
            # the derive list: if it changes (e.g. a hand-written PartialEq replaces the derived one) the
            # anchor is lost (UNDECIDED, then witness search), never a silent pass.
            pre = src.text[max(0, span[0] - 600):span[0]]
            ms = re.findall(r'#\[derive\(([^)]*)\)\]', pre.split('}')[-1])
            got = sorted(x.strip() for m in ms for x in m.split(',') if x.strip())
            want = sorted(x.strip() for x in kv['derives'].split(',') if x.strip())
            if got != want:
                raise LostAnchor('%s: derive list of %s changed: %s (contracts assume %s)' % (kv['file'], kv['name'], got, want))
        meta.append(dict(id='%s::%s %s' % (kv['file'].split('/src/')[-1], kv['kind'], kv['name']), file=kv['file'],
                         lines=[src.line_of(span[0]), src.line_of(span[1])],
                         sha256=hashlib.sha256(text.encode()).hexdigest(), rules=['R1', 'R4'], mode=self.mode,
                         contract_clauses=0))
        t = self.r4_struct(text)
        if 'vattr' in kv:
            # verifier-only attributes (no effect on the compiled type)
            t = kv['vattr'] + '\n' + t
        return t

    # ------------------------------------------------------------------ unit assembly
    def expand_item(self, name, meta, linemap, out, is_root=True):
        item = self.items[name]
        lines = item['lines']
        i = 0
        while i < len(lines):
            line = lines[i]
            s = line.strip()
            if s.startswith('//@struct '):
                txt = self.extract_struct(parse_kv(s), meta)
                self.emit(out, linemap, txt, name, meta[-1]['id'])
                i += 1
            elif s.startswith('//@extract '):
                kv = parse_kv(s)
                contract, ghosts = [], []
                cur = None
                i += 1
                while i < len(lines) and not lines[i].strip().startswith('//@end'):
                    t = lines[i].strip()
                    if t.startswith('//@|'):
                        payload = t[4:].rstrip()
                        if payload.startswith(' '):
                            payload = payload[1:]
                        if cur is None:
                            mm = re.match(r'\s*\[([TR,]+)\]\s*(.*)$', payload)
                            if mm:
                                contract.append((mm.group(1).split(','), mm.group(2)))
                            else:
                                contract.append((None, payload))
                        else:
                            if not GHOST_OK.match(payload) and not cur.get('_in_proof'):
                                pass
                            cur['lines'].append(payload)
                    elif t.startswith('//@ghost '):
                        g = parse_kv(t)
                        cur = dict(lines=[], modes=g.get('modes', '').split(',') if g.get('modes') else None)
                        if g.get('at') == 'start':
                            cur['kind'] = 'start'
                        elif g.get('at') == 'end':
                            cur['kind'] = 'end'
                        else:
                            for k in ('before', 'after', 'loop', 'name_iter'):
                                if k in g:
                                    cur['kind'] = k
                                    cur['pat'] = g[k]
                        if 'nth' in g:
                            cur['nth'] = g['nth']
                        ghosts.append(cur)
                    elif t.startswith('//@bind '):
                        # //@bind `stmt pattern with $x`: binds the metavariables to the identifiers the repository text uses
                        # (renamed locals), for all following ghost splices of this function; inserts nothing
                        mb = re.match(r'//@bind\s+`([^`]*)`', t)
                        cur = dict(lines=[], modes=None, kind='bind', pat=mb.group(1))
                        ghosts.append(cur)
                        cur = None
                    elif t.startswith('//@@'):
                        kv.update(parse_kv(t))
                    elif t == '' or t.startswith('//'):
                        pass
                    else:
                        raise Exception('%s: unexpected line inside //@extract: %s' % (item['file'], t))
                    i += 1
                i += 1
                if kv.get('modes') and self.mode not in kv['modes'].split(','):
                    continue
                for g in ghosts:
                    self.check_ghost_only(g, item)
                txt = self.extract_fn(kv, contract, ghosts, meta)
                self.emit(out, linemap, txt, name, meta[-1]['id'])
            elif s.startswith('//@implopen '):
                kv = parse_kv(s)
                src = self.src(kv['file'])
                hits = src.find_impl(kv['impl'])
                if len(hits) != 1:
                    raise LostAnchor('%s: %d impls match `%s`' % (kv['file'], len(hits), kv['impl']))
                hdr, hstart, hopen, hclose = hits[0]
                header = src.text[hstart:hopen].rstrip()
                body = ''
                for m in re.finditer(r'(?m)^\s*(type\s+\w+\s*=\s*[^;]+;|const\s+\w+\s*:\s*[^;]+;)', src.masked[hopen:hclose]):
                    seg = src.masked[hopen:hopen + m.start()]
                    if seg.count('{') - seg.count('}') == 1:
                        body += '    ' + src.text[hopen + m.start():hopen + m.end()].strip() + '\n'
                meta.append(dict(id='%s::%s::<header>' % (kv['file'].split('/src/')[-1], hdr), file=kv['file'],
                                 lines=[src.line_of(hstart), src.line_of(hopen)], sha256=hashlib.sha256((header + body).encode()).hexdigest(),
                                 rules=['R1', 'R4'], mode=self.mode, contract_clauses=0))
                body = r10_const_generic(body, hdr, meta[-1]['rules'])
                self.emit(out, linemap, header + ' {\n' + body.rstrip('\n'), name, None)
                i += 1
            elif s.startswith('//@extractconst '):
                kv = parse_kv(s)
                src = self.src(kv['file'])
                hits = src.find_impl(kv['impl'])
                if not hits:
                    raise LostAnchor('%s: no impl matching `%s`' % (kv['file'], kv['impl']))
                hdr, hstart, hopen, hclose = hits[int(kv.get('nthimpl', 0))]
                m = re.search(r'(?m)^\s*(?:pub\s+)?const\s+' + re.escape(kv['name']) + r'\s*:\s*[^;]+;', src.masked[hopen:hclose])
                if not m:
                    raise LostAnchor('%s: const %s not found' % (kv['file'], kv['name']))
                txt = src.text[hopen + m.start():hopen + m.end()].strip()
                meta.append(dict(id='%s::%s::const %s' % (kv['file'].split('/src/')[-1], hdr, kv['name']), file=kv['file'],
                                 lines=[src.line_of(hopen + m.start()), src.line_of(hopen + m.end())],
                                 sha256=hashlib.sha256(txt.encode()).hexdigest(), rules=['R1'], mode=self.mode, contract_clauses=0))
                self.emit(out, linemap, '    pub ' + txt if not txt.startswith('pub') else '    ' + txt, name, meta[-1]['id'])
                i += 1
            elif s.startswith('//@rows '):
                # R15: the rows of a table written with `iupac!("XYZ")` literals are copied as data: each literal is
                # replaced by its three nucleotide-set masks (IUPAC letter table: A=8 C=4 G=2 T=1, unions) and
                # each `Amino::V` by the display letter of that variant (X -> '*').  ASSUMES the iupac! macro
                # produces the sequence runtime parsing would (property C16, not claimed).
                kv = parse_kv(s)
                src = self.src(kv['file'])
                fns = src.find_fn(kv['fn'], 0, src.limit)
                if not fns:
                    raise LostAnchor('%s: fn %s not found' % (kv['file'], kv['fn']))
                f = fns[0]
                body = src.text[f['body_open']:f['body_close'] + 1]
                sig = src.text[f['sig_start']:f['body_open']]
                setof = {'A': 8, 'C': 4, 'G': 2, 'T': 1, 'R': 10, 'Y': 5, 'S': 6, 'W': 9, 'K': 3, 'M': 12, 'B': 7, 'D': 11, 'H': 13, 'V': 14, 'N': 15, '-': 0}
                rows = re.findall(r'\(\s*iupac!\(\s*"([^"]*)"\s*\)\.into\(\)\s*,\s*Amino::(\w+)\s*\)', mask_noncode(body) and body)
                entries = re.findall(r'\(\s*iupac!', body)
                mlen = re.search(r';\s*(\d+)\s*\]', sig)
                if not rows or len(rows) != len(entries) or (mlen and int(mlen.group(1)) != len(rows)):
                    raise LostAnchor('%s: fn %s: table rows not in the expected `(iupac!("..").into(), Amino::V)` form' % (kv['file'], kv['fn']))
                items = []
                for pat, var in rows:
                    if len(pat) != 3 or any(c not in setof for c in pat) or len(var) != 1:
                        raise Unsupported('R15: table row (%s, %s) outside the rule' % (pat, var))
                    items.append('(%du8, %du8, %du8, %du8)' % (setof[pat[0]], setof[pat[1]], setof[pat[2]], ord('*') if var == 'X' else ord(var)))
                txt = ('pub open spec fn %s() -> VSeq<(u8, u8, u8, u8)> {\n    seq![%s]\n}\npub open spec fn %s_len() -> int { %d }'
                       % (kv['name'], ', '.join(items), kv['name'], len(items)))
                meta.append(dict(id='%s::fn %s (table data)' % (kv['file'].split('/src/')[-1], kv['fn']), file=kv['file'],
                                 lines=[src.line_of(f['sig_start']), src.line_of(f['body_close'])],
                                 sha256=hashlib.sha256(src.text[f['sig_start']:f['body_close'] + 1].encode()).hexdigest(),
                                 rules=['R1', 'R15'], mode=self.mode, contract_clauses=0))
                self.emit(out, linemap, txt, name, meta[-1]['id'])
                i += 1
            elif s.startswith('//@litrows '):
                # R17: the per-character arms `'C' => bits.extend([1, 0]),` of a literal macro's scanner are copied as data
                # (character, bit list); alternatives `'X' | '-'` become one row each
                kv = parse_kv(s)
                src = self.src(kv['file'])
                fns = src.find_fn(kv['fn'], 0, src.limit)
                if not fns:
                    raise LostAnchor('%s: fn %s not found' % (kv['file'], kv['fn']))
                f = fns[0]
                body = src.text[f['body_open']:f['body_close'] + 1]
                arms = re.findall(r"((?:'[^']'\s*\|\s*)*'[^']')\s*=>\s*bits\.extend\(\[([0-9,\s]*)\]\)", body)
                n_extend = len(re.findall(r'bits\.extend\(', body))
                if not arms or len(arms) != n_extend:
                    raise LostAnchor('%s: fn %s: scanner arms not in the expected `CHAR => bits.extend([..])` form' % (kv['file'], kv['fn']))
                rows = []
                # every other arm with character patterns (`'_' => continue`, `'x' => { .. }`): the scanner ACCEPTS that character
                # without emitting the bits of a symbol - copied as a row with an empty bit list, which the lemma rejects
                # ("no row for an undocumented character"); the single `_ =>` arm must be the error return
                mbody = mask_noncode(body)
                for am in re.finditer(r"((?:'(?:\\.|[^'\\])'\s*\|\s*)*'(?:\\.|[^'\\])')\s*(?:if\b[^=]*)?=>", body):
                    tail = body[am.end():am.end() + 40]
                    if re.match(r'\s*bits\.extend\(', tail):
                        continue
                    for ch in re.findall(r"'((?:\\.|[^'\\]))'", am.group(1)):
                        c = {'\\n': 10, '\\t': 9, '\\r': 13, '\\0': 0, "\\'": 39, '\\\\': 92}.get(ch, ord(ch[-1]))
                        rows.append('(%du8, seq![])' % c) if c < 256 else None
                if re.search(r"'[^']+'\s*\.\.=?\s*'[^']+'\s*=>|\bc\s+if\b", mbody.replace(' ', ' ')) or len(re.findall(r'(?m)^\s*_\s*=>', body)) != 1 or not re.search(r'_\s*=>\s*\{?\s*return\s+Err\(', body):
                    raise LostAnchor('%s: fn %s: scanner has range / guarded arms or no single `_ => return Err(..)` arm' % (kv['file'], kv['fn']))
                for chars, bits in arms:
                    bl = [b.strip() for b in bits.split(',') if b.strip()]
                    if any(b not in ('0', '1') for b in bl):
                        raise Unsupported('R17: non-bit literal in %s' % bits)
                    for ch in re.findall(r"'([^'])'", chars):
                        rows.append('(%du8, seq![%s])' % (ord(ch), ', '.join(b + 'u8' for b in bl)))
                txt = 'pub open spec fn %s() -> VSeq<(u8, VSeq<u8>)> {\n    seq![%s]\n}' % (kv['name'], ', '.join(rows))
                meta.append(dict(id='%s::fn %s (scanner arms)' % (kv['file'].split('/src/')[-1], kv['fn']), file=kv['file'],
                                 lines=[src.line_of(f['sig_start']), src.line_of(f['body_close'])],
                                 sha256=hashlib.sha256(src.text[f['sig_start']:f['body_close'] + 1].encode()).hexdigest(),
                                 rules=['R1', 'R15', 'R17'], mode=self.mode, contract_clauses=0))
                self.emit(out, linemap, txt, name, meta[-1]['id'])
                i += 1
            elif s.startswith('//@implclose'):
                self.emit(out, linemap, '}', name, None)
                i += 1
            elif s.startswith('//@dep'):
                # following single line only when this item is a dependency (not a root) of the unit: used to
                # turn an expensive lemma into `external_body` where it is merely used - it is proved in the
                # unit where its item is a root (same check run)
                i += 1
                if not is_root:
                    self.emit(out, linemap, lines[i], name, None)
                i += 1
            elif s.startswith('//@mode '):
                # //@mode T|R : following single line only in that mode
                want = s.split()[1]
                i += 1
                if want == self.mode:
                    self.emit(out, linemap, lines[i], name, None)
                i += 1
            else:
                self.emit(out, linemap, line, name, None)
                i += 1

    def check_ghost_only(self, g, item):
        """R3: a splice may contain only proof blocks / assert / invariant / decreases."""
        text = '\n'.join(g['lines']).strip()
        if g['kind'] == 'bind':
            return
        if g['kind'] == 'name_iter':
            if not re.match(r'^\w+$', text):
                raise Exception('name_iter splice must be an identifier')
            return
        if g['kind'] == 'loop':
            if not re.match(r'^(invariant|invariant_except_break|decreases|ensures)\b', text):
                raise Exception('%s: loop splice must start with invariant/decreases: %s' % (item['file'], text[:40]))
            return
        # must be a sequence of proof { ... } blocks and assert(...) statements
        masked = mask_noncode(text)
        k = 0
        while k < len(text):
            m = re.match(r'\s*', text[k:])
            k += m.end()
            if k >= len(text):
                break
            if re.match(r'let\s+ghost\b', text[k:]):
                k = masked.index(';', k) + 1
            elif text.startswith('proof', k):
                o = masked.find('{', k)
                k = match_brace(masked, o) + 1
            elif text.startswith('assert', k):
                o = masked.find('(', k)
                c = match_brace(masked, o)
                rest = masked[c + 1:]
                mm = re.match(r'\s*by\s*(\([^)]*\))?\s*(requires[^;{]*)?\{', rest)
                if mm:
                    o2 = c + 1 + mm.end() - 1
                    k = match_brace(masked, o2) + 1
                else:
                    mm = re.match(r'\s*(by\s*\([^)]*\)\s*(requires[^;]*)?)?;', rest)
                    if not mm:
                        raise Exception('%s: malformed assert in ghost splice' % item['file'])
                    k = c + 1 + mm.end()
            else:
                raise Exception('%s: ghost splice contains non-ghost text: %s' % (item['file'], text[k:k + 40]))

    def emit(self, out, linemap, text, item, fnid):
        for l in text.split('\n'):
            out.append(l)
            linemap.append((item, fnid))

    def providers(self, fn_name, type_hint=None):
        """items whose //@extract line puts the repository function `fn_name` under contract (dependency completion:
        a refactored function may call a sibling that the item's hand-written deps= list did not foresee)"""
        hits = []
        for name in self.order:
            for line in self.items[name]['lines']:
                st = line.strip()
                if not st.startswith('//@extract '):
                    continue
                kv = parse_kv(st)
                if kv.get('rename', kv.get('fn')) != fn_name and kv.get('fn') != fn_name:
                    continue
                if kv.get('rename') and kv.get('rename') != fn_name:
                    continue      # instantiations under another name do not answer a call by the plain name
                hits.append((name, kv.get('rehome', kv.get('impl', ''))))
        if type_hint:
            typed = [n for n, impl in hits if re.search(r'(?:for\s+|>\s+|^impl\s+)&?' + re.escape(type_hint) + r'\b', impl)]
            if typed:
                return typed
        return [n for n, _ in hits]

    def build_unit(self, roots, extra=()):
        meta, linemap, out = [], [], []
        names = self.closure(['header'] + list(roots) + list(extra) + ['footer'])
        for n in names:
            self.expand_item(n, meta, linemap, out, is_root=(n in roots))
        return '\n'.join(out) + '\n', meta, linemap, names


if __name__ == '__main__':
    import argparse
    ap = argparse.ArgumentParser()
    ap.add_argument('--repo', default='/repo')
    ap.add_argument('--contracts', default=os.path.join(os.path.dirname(__file__), '..', 'contracts'))
    ap.add_argument('--mode', default='T')
    ap.add_argument('--out', required=True)
    ap.add_argument('roots', nargs='+')
    a = ap.parse_args()
    ex = Extractor(a.repo, a.contracts, a.mode)
    try:
        text, meta, linemap, names = ex.build_unit(a.roots)
    except (LostAnchor, Unsupported) as e:
        print('UNDECIDED extraction: %s' % e)
        sys.exit(2)
    open(a.out, 'w').write(text)
    json.dump(dict(functions=meta, items=names, linemap=linemap), open(a.out + '.meta.json', 'w'), indent=1)
    print('wrote %s: %d items, %d extracted functions' % (a.out, len(names), len(meta)))
