"""Minimal Rust source scanner: finds impl blocks, fn items and struct/enum items by brace
matching (comments, strings, char literals and lifetimes are skipped).  stdlib only.
It does not parse Rust; it only needs to delimit items so their text can be copied verbatim."""
import re


class ScanError(Exception):
    pass


def mask_noncode(src):
    """Return a string of the same length where comments, string and char literal *contents*
    are replaced by spaces (newlines kept), so brace matching and regex search see code only."""
    out = list(src)
    i, n = 0, len(src)

    def blank(a, b):
        for k in range(a, b):
            if out[k] != '\n':
                out[k] = ' '

    while i < n:
        c = src[i]
        if src.startswith('//', i):
            j = src.find('\n', i)
            j = n if j < 0 else j
            blank(i, j)
            i = j
        elif src.startswith('/*', i):
            depth, j = 1, i + 2
            while j < n and depth:
                if src.startswith('/*', j):
                    depth += 1; j += 2
                elif src.startswith('*/', j):
                    depth -= 1; j += 2
                else:
                    j += 1
            blank(i, j)
            i = j
        elif c == '"' or (c == 'b' and src.startswith('b"', i)) :
            s = i + (2 if c == 'b' else 1)
            j = s
            while j < n and src[j] != '"':
                j += 2 if src[j] == '\\' else 1
            blank(s, j)
            i = j + 1
        elif c == 'r' and re.match(r'r#*"', src[i:i + 8]) and (i == 0 or not (src[i - 1].isalnum() or src[i - 1] == '_')):
            m = re.match(r'r(#*)"', src[i:])
            close = '"' + m.group(1)
            s = i + m.end()
            j = src.find(close, s)
            if j < 0:
                raise ScanError('unterminated raw string')
            blank(s, j)
            i = j + len(close)
        elif c == "'":
            # char literal or lifetime
            m = re.match(r"'(\\.[^']*|[^'\\])'", src[i:])
            if m:
                blank(i + 1, i + m.end() - 1)
                i += m.end()
            else:
                i += 1
        elif c == 'b' and src.startswith("b'", i):
            m = re.match(r"b'(\\.[^']*|[^'\\])'", src[i:])
            if m:
                blank(i + 2, i + m.end() - 1)
                i += m.end()
            else:
                i += 1
        else:
            i += 1
    return ''.join(out)


def match_brace(masked, open_idx):
    """index of the brace matching masked[open_idx] ('{', '(' or '[')"""
    pairs = {'{': '}', '(': ')', '[': ']'}
    o = masked[open_idx]
    c = pairs[o]
    depth = 0
    for k in range(open_idx, len(masked)):
        ch = masked[k]
        if ch == o:
            depth += 1
        elif ch == c:
            depth -= 1
            if depth == 0:
                return k
    raise ScanError('unbalanced %s at %d' % (o, open_idx))


def norm_ws(s):
    return re.sub(r'\s+', ' ', s).strip()


class Source:
    def __init__(self, path):
        self.path = path
        self.text = open(path, encoding='utf-8').read()
        self.masked = mask_noncode(self.text)
        # cut off #[cfg(test)] mod tests { ... } so test code is never matched
        m = re.search(r'#\[cfg\(test\)\]\s*mod\s+\w+\s*\{', self.masked)
        self.limit = m.start() if m else len(self.text)

    def line_of(self, idx):
        return self.text.count('\n', 0, idx) + 1

    def impls(self):
        """yield (header_text_normalised, header_start, body_open, body_close)"""
        for m in re.finditer(r'(?m)^[ \t]*(?:(?:unsafe\s+)?impl|(?:pub(?:\s*\([^)]*\))?\s+)?trait)\b', self.masked[:self.limit]):
            start = m.start() + len(m.group(0)) - len(m.group(0).lstrip())
            k = self.masked.find('{', m.end())
            # skip const-generic brace expressions in header, e.g. Ba<{ (..) as usize }>: detect
            # by the brace being inside <...>: approximate by angle depth
            while k >= 0:
                seg = self.masked[m.end():k]
                depth = 0
                prev = ''
                for ch in seg:
                    if ch == '<':
                        depth += 1
                    elif ch == '>' and prev != '-' and prev != '=':
                        depth -= 1
                    prev = ch
                if depth <= 0:
                    break
                k = self.masked.find('{', match_brace(self.masked, k) + 1)
            if k < 0:
                continue
            close = match_brace(self.masked, k)
            yield norm_ws(self.text[start:k]), start, k, close

    def find_impl(self, header_pat):
        """header_pat: exact normalised header text, or /regex/."""
        hits = []
        for hdr, s, o, c in self.impls():
            if header_pat.startswith('/') and header_pat.endswith('/'):
                ok = re.search(header_pat[1:-1], hdr) is not None
            else:
                ok = hdr == norm_ws(header_pat)
            if ok:
                hits.append((hdr, s, o, c))
        return hits

    def find_fn(self, name, lo=0, hi=None):
        """find `fn name` item between lo and hi (code indices); returns dict with spans.
        Only matches at the nesting depth of `lo` (depth 0 relative)."""
        hi = self.limit if hi is None else hi
        pat = re.compile(r'\bfn\s+' + re.escape(name) + r'\b')
        hits = []
        for m in pat.finditer(self.masked, lo, hi):
            # relative depth must be zero
            seg = self.masked[lo:m.start()]
            if seg.count('{') != seg.count('}'):
                continue
            # item start: go back over qualifiers / attributes / doc comments on preceding lines
            sig_start = m.start()
            pre = self.masked[lo:sig_start]
            mq = re.search(r'((?:pub(?:\s*\([^)]*\))?\s+)?(?:const\s+)?(?:unsafe\s+)?)$', pre)
            sig_start -= len(mq.group(1))
            # signature end: first '{' or ';' at paren depth 0 (where-clauses contain no braces here)
            k = m.end()
            depth = 0
            angle = 0
            while k < hi:
                ch = self.masked[k]
                if ch in '([':
                    depth += 1
                elif ch in ')]':
                    depth -= 1
                elif ch == '<' and depth == 0:
                    angle += 1
                elif ch == '>' and depth == 0 and self.masked[k - 1] not in '-=' and angle > 0:
                    angle -= 1
                elif ch == '{' and depth == 0 and angle == 0:
                    break
                elif ch == '{' and depth == 0 and angle > 0:
                    # const-generic block expression inside <...>
                    k = match_brace(self.masked, k)
                elif ch == ';' and depth == 0 and angle == 0:
                    break
                k += 1
            if self.masked[k] == ';':
                hits.append(dict(sig_start=sig_start, body_open=None, body_close=k, name=name))
            else:
                hits.append(dict(sig_start=sig_start, body_open=k, body_close=match_brace(self.masked, k), name=name))
        return hits

    def find_item(self, kind, name):
        """struct / enum / trait / type / const item at top level; returns (start, end) incl. attrs dropped"""
        pat = re.compile(r'(?m)^[ \t]*(?:pub(?:\s*\([^)]*\))?\s+)?' + kind + r'\s+' + re.escape(name) + r'\b')
        m = pat.search(self.masked, 0, self.limit)
        if not m:
            return None
        k = m.end()
        while self.masked[k] not in '{;':
            if self.masked[k] in '(<' and False:
                pass
            k += 1
        if self.masked[k] == '{':
            end = match_brace(self.masked, k) + 1
        else:
            end = k + 1
        start = m.start() + len(m.group(0)) - len(m.group(0).lstrip())
        return start, end
