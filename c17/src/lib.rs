//! C17: the real `#[derive(Codec)]` expands generated enum declarations (src/gen.rs, rewritten on every
//! run by tools/gen_c17.py); the shared codec contract (laws/laws.rs) is instantiated on each with an
//! oracle computed from the declaration text, independently of the macro.
#![allow(dead_code, non_camel_case_types)]
#[path = "../../laws/laws.rs"]
pub mod laws;
#[cfg(not(kani))]
pub mod seqlaw;
pub mod gen;
