//! native replay / enumeration for C17: `bioseq-c17 replay <harness> <hex>...` or `bioseq-c17 all`
use bioseq_c17::gen;
use bioseq_c17::laws::Src;
use std::panic;

struct ReplaySrc { vals: Vec<Vec<u8>>, pos: usize, failed: Vec<&'static str>, passed: usize }
impl ReplaySrc {
    fn next(&mut self, n: usize) -> Vec<u8> {
        let mut v = self.vals.get(self.pos).cloned().unwrap_or_else(|| vec![0; n]);
        self.pos += 1;
        v.resize(n, 0);
        v
    }
}
impl Src for ReplaySrc {
    fn u8(&mut self) -> u8 { self.next(1)[0] }
    fn usize(&mut self) -> usize { usize::from_le_bytes(self.next(8).try_into().unwrap()) }
    fn assume(&mut self, c: bool) -> bool { c }
    fn check(&mut self, label: &'static str, c: bool) { if c { self.passed += 1 } else { self.failed.push(label) } }
    fn cover(&mut self, _l: &'static str, _c: bool) {}
}
fn js(s: &str) -> String { format!("{:?}", s) }
fn main() {
    let args: Vec<String> = std::env::args().collect();
    panic::set_hook(Box::new(|_| {}));
    if args.len() >= 3 && args[1] == "replay" {
        let name = args[2].clone();
        let vals: Vec<Vec<u8>> = args[3..].iter().map(|s| (0..s.len() / 2).map(|i| u8::from_str_radix(&s[2 * i..2 * i + 2], 16).unwrap()).collect()).collect();
        let r = panic::catch_unwind(move || {
            let mut src = ReplaySrc { vals, pos: 0, failed: vec![], passed: 0 };
            let known = gen::dispatch(&name, &mut src);
            (known, src.failed, src.passed)
        });
        match r {
            Ok((known, failed, passed)) => println!("{{\"known_law\":{},\"panicked\":null,\"failed\":[{}],\"passed\":{}}}", known, failed.iter().map(|l| js(l)).collect::<Vec<_>>().join(","), passed),
            Err(e) => {
                let msg = e.downcast_ref::<String>().cloned().or_else(|| e.downcast_ref::<&str>().map(|s| s.to_string())).unwrap_or_default();
                println!("{{\"known_law\":true,\"panicked\":{},\"failed\":[],\"passed\":0}}", js(&msg));
            }
        }
    } else {
        // native complete enumeration of every generated declaration (no symbolic inputs needed: 256 x rows)
        let mut total = 0usize;
        let mut fails: Vec<String> = vec![];
        for name in gen::HARNESSES {
            for b in 0..=255u8 {
                for k in 0..4usize {
                    let r = panic::catch_unwind(|| {
                        let mut src = ReplaySrc { vals: vec![vec![b], vec![b], (k as u64 * 7 + b as u64 % 7).to_le_bytes().to_vec(), (b as u64 % 5).to_le_bytes().to_vec()], pos: 0, failed: vec![], passed: 0 };
                        gen::dispatch(name, &mut src);
                        (src.failed, src.passed)
                    });
                    match r {
                        Ok((f, p)) => { total += p; for l in f { if fails.len() < 20 { fails.push(format!("{} b={} {}", name, b, l)); } } }
                        Err(_) => { if fails.len() < 20 { fails.push(format!("{} b={} panicked", name, b)); } }
                    }
                }
            }
        }
        // sequences and k-mers over every generated codec (bounded glue)
        #[cfg(not(kani))]
        for name in gen::HARNESSES {
            match panic::catch_unwind(|| gen::seq_dispatch(name)) {
                Ok(v) => { total += 1; for l in v { if fails.len() < 20 { fails.push(format!("{} seq {}", name, l)); } } }
                Err(_) => { if fails.len() < 20 { fails.push(format!("{} seq panicked", name)); } }
            }
        }
        println!("{{\"passed\":{},\"failures\":[{}]}}", total, fails.iter().map(|l| js(l)).collect::<Vec<_>>().join(","));
    }
}
