//! C17, last clause ("sequences over a derived codec satisfy the same round-trip laws as built-ins"), BOUNDED native part.
//! The deductive argument is compositional: the Verus proofs of Seq / SeqSlice / Kmer are generic in `A: Codec` and assume
//! only the codec contract, which Kani proves for every generated declaration.  What those proofs do not reach is the glue
//! (Display, parsing, iterator adapters) - exercised here on every generated codec with symbols the built-ins do not have.
use crate::laws::Oracle;
use bio_seq::prelude::*;
use std::hash::{Hash, Hasher};

fn h<T: Hash + ?Sized>(t: &T) -> u64 {
    let mut s = std::collections::hash_map::DefaultHasher::new();
    t.hash(&mut s);
    s.finish()
}

fn kmers<C: Oracle, const K: usize>(s: &Seq<C>, text: &str, out: &mut Vec<String>) {
    if K * C::BITS as usize > 64 || s.len() < K {
        return;
    }
    for (i, k) in s.kmers::<K>().enumerate() {
        let want = &text[i..i + K];
        let back: Seq<C> = Seq::from(k);
        let parsed = Kmer::<C, K>::from_str(want);
        if !(k.to_string() == want && k == &s[i..i + K] && h(&k) == h(&s[i..i + K]) && back.to_string() == want && parsed.as_ref().map(|p| *p == k).unwrap_or(false) && (*k).to_string() == want) {
            out.push(format!("{} K={} window {}: k-mer displays {:?}, slice {:?}", C::NAME, K, i, k.to_string(), want));
            return;
        }
    }
}

pub fn run<C: Oracle>() -> Vec<String> {
    let mut out = vec![];
    let n = C::len();
    for len in [0usize, 1, 2, n, 2 * n + 1, 70] {
        // every symbol appears, in a content that is not a repetition of the declaration order
        let rows: Vec<usize> = (0..len).map(|i| (i * 7 + i / n.max(1)) % n).collect();
        let text: String = rows.iter().map(|&r| C::entry(r).ch as char).collect();
        let mut s = Seq::<C>::new();
        for &r in &rows {
            s.push(C::entry(r).sym);
        }
        let parsed = Seq::<C>::try_from(text.as_str());
        let ok = s.len() == len && s.to_string() == text && parsed.as_ref().map(|p| *p == s && h(p) == h(&s)).unwrap_or(false)
            && (0..len).all(|i| s.nth(i) == C::entry(rows[i]).sym) && s.iter().map(|x| x.to_char()).collect::<String>() == text
            && s.rev_iter().map(|x| x.to_char()).collect::<String>() == text.chars().rev().collect::<String>()
            && s.to_rev().to_string() == text.chars().rev().collect::<String>() && s[..] == text.as_str() && String::from(&s) == text
            && (len < 3 || (s[1..len - 1].to_string() == text[1..len - 1] && s[1..len - 1].to_owned() == s[1..len - 1]));
        if !ok {
            out.push(format!("{} sequence {:?} (len {}) does not round trip: displays {:?}, parses {:?}", C::NAME, text, len, s.to_string(), parsed.as_ref().map(|p| p.to_string())));
        }
        kmers::<C, 1>(&s, &text, &mut out);
        kmers::<C, 3>(&s, &text, &mut out);
        kmers::<C, 8>(&s, &text, &mut out);
    }
    out
}
