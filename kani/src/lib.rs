//! Kani harness crate: instantiates the shared laws (../laws/laws.rs) with symbolic inputs.
//! Every harness is loop-free over its symbolic inputs (loops only range over the concrete
//! oracle tables), so a pass is a complete proof over the whole u8 / usize domain.
#![allow(dead_code)]

#[path = "../../laws/laws.rs"]
pub mod laws;

#[cfg(kani)]
mod harness {
    use super::laws::*;
    use bio_seq::codec::{degenerate, masked, text};
    use bio_seq::prelude::*;

    pub struct KaniSrc;
    impl Src for KaniSrc {
        fn u8(&mut self) -> u8 {
            kani::any()
        }
        fn usize(&mut self) -> usize {
            kani::any()
        }
        fn u64(&mut self) -> u64 {
            kani::any()
        }
        fn u128(&mut self) -> u128 {
            kani::any()
        }
        fn assume(&mut self, c: bool) -> bool {
            kani::assume(c);
            true
        }
        fn check(&mut self, label: &'static str, c: bool) {
            let _ = label;
            kani::assert(c, "law clause (unlabelled path)");
        }
        fn cover(&mut self, label: &'static str, c: bool) {
            let _ = (c, label);
        }
    }

    macro_rules! codec_harness {
        ($name:ident, $ascii:ident, $rows:ident, $t:ty) => {
            #[kani::proof]
            fn $name() {
                codec_contract::<$t, _>(&mut KaniSrc);
            }
            #[kani::proof]
            fn $ascii() {
                codec_ascii_law::<$t, _>(&mut KaniSrc);
            }
            #[kani::proof]
            fn $rows() {
                codec_rows_law::<$t, _>(&mut KaniSrc);
            }
        };
    }
    codec_harness!(codec_contract_dna, codec_ascii_dna, codec_rows_dna, Dna);
    codec_harness!(codec_contract_iupac, codec_ascii_iupac, codec_rows_iupac, Iupac);
    codec_harness!(codec_contract_amino, codec_ascii_amino, codec_rows_amino, Amino);
    codec_harness!(codec_contract_text, codec_ascii_text, codec_rows_text, text::Dna);
    codec_harness!(codec_contract_masked_dna, codec_ascii_masked_dna, codec_rows_masked_dna, masked::dna::Dna);
    codec_harness!(codec_contract_masked_iupac, codec_ascii_masked_iupac, codec_rows_masked_iupac, masked::iupac::Iupac);
    codec_harness!(codec_contract_degenerate, codec_ascii_degenerate, codec_rows_degenerate, degenerate::dna::Dna);

    #[kani::proof]
    fn complement_dna() {
        complement_law::<Dna, _>(&mut KaniSrc);
    }
    #[kani::proof]
    fn complement_iupac() {
        complement_law::<Iupac, _>(&mut KaniSrc);
    }
    #[kani::proof]
    fn complement_masked_dna() {
        complement_law::<masked::dna::Dna, _>(&mut KaniSrc);
    }
    #[kani::proof]
    fn complement_masked_iupac() {
        complement_law::<masked::iupac::Iupac, _>(&mut KaniSrc);
    }
    #[kani::proof]
    fn complement_degenerate() {
        complement_law::<degenerate::dna::Dna, _>(&mut KaniSrc);
    }
    #[kani::proof]
    fn mask_iupac() {
        mask_law_iupac(&mut KaniSrc);
    }
    #[kani::proof]
    fn mask_dna() {
        mask_law_dna(&mut KaniSrc);
    }
    #[kani::proof]
    fn iupac_sets() {
        iupac_set_law(&mut KaniSrc);
    }
    #[kani::proof]
    fn amino_table() {
        amino_table_law(&mut KaniSrc);
    }
    #[kani::proof]
    fn kmer_dna_ops_k1() {
        kmer_dna_ops_law::<1, _>(&mut KaniSrc);
    }
    #[kani::proof]
    fn kmer_dna_ops_k2() {
        kmer_dna_ops_law::<2, _>(&mut KaniSrc);
    }
    #[kani::proof]
    fn kmer_dna_ops_k3() {
        kmer_dna_ops_law::<3, _>(&mut KaniSrc);
    }
    #[kani::proof]
    fn kmer_dna_ops_k4() {
        kmer_dna_ops_law::<4, _>(&mut KaniSrc);
    }
    #[kani::proof]
    fn kmer_dna_ops_k5() {
        kmer_dna_ops_law::<5, _>(&mut KaniSrc);
    }
    #[kani::proof]
    fn kmer_dna_ops_k6() {
        kmer_dna_ops_law::<6, _>(&mut KaniSrc);
    }
    #[kani::proof]
    fn kmer_dna_ops_k7() {
        kmer_dna_ops_law::<7, _>(&mut KaniSrc);
    }
    #[kani::proof]
    fn kmer_dna_ops_k8() {
        kmer_dna_ops_law::<8, _>(&mut KaniSrc);
    }
    #[kani::proof]
    fn kmer_dna_ops_k9() {
        kmer_dna_ops_law::<9, _>(&mut KaniSrc);
    }
    #[kani::proof]
    fn kmer_dna_ops_k10() {
        kmer_dna_ops_law::<10, _>(&mut KaniSrc);
    }
    #[kani::proof]
    fn kmer_dna_ops_k11() {
        kmer_dna_ops_law::<11, _>(&mut KaniSrc);
    }
    #[kani::proof]
    fn kmer_dna_ops_k12() {
        kmer_dna_ops_law::<12, _>(&mut KaniSrc);
    }
    #[kani::proof]
    fn kmer_dna_ops_k13() {
        kmer_dna_ops_law::<13, _>(&mut KaniSrc);
    }
    #[kani::proof]
    fn kmer_dna_ops_k14() {
        kmer_dna_ops_law::<14, _>(&mut KaniSrc);
    }
    #[kani::proof]
    fn kmer_dna_ops_k15() {
        kmer_dna_ops_law::<15, _>(&mut KaniSrc);
    }
    #[kani::proof]
    fn kmer_dna_ops_k16() {
        kmer_dna_ops_law::<16, _>(&mut KaniSrc);
    }
    #[kani::proof]
    fn kmer_dna_ops_k17() {
        kmer_dna_ops_law::<17, _>(&mut KaniSrc);
    }
    #[kani::proof]
    fn kmer_dna_ops_k18() {
        kmer_dna_ops_law::<18, _>(&mut KaniSrc);
    }
    #[kani::proof]
    fn kmer_dna_ops_k19() {
        kmer_dna_ops_law::<19, _>(&mut KaniSrc);
    }
    #[kani::proof]
    fn kmer_dna_ops_k20() {
        kmer_dna_ops_law::<20, _>(&mut KaniSrc);
    }
    #[kani::proof]
    fn kmer_dna_ops_k21() {
        kmer_dna_ops_law::<21, _>(&mut KaniSrc);
    }
    #[kani::proof]
    fn kmer_dna_ops_k22() {
        kmer_dna_ops_law::<22, _>(&mut KaniSrc);
    }
    #[kani::proof]
    fn kmer_dna_ops_k23() {
        kmer_dna_ops_law::<23, _>(&mut KaniSrc);
    }
    #[kani::proof]
    fn kmer_dna_ops_k24() {
        kmer_dna_ops_law::<24, _>(&mut KaniSrc);
    }
    #[kani::proof]
    fn kmer_dna_ops_k25() {
        kmer_dna_ops_law::<25, _>(&mut KaniSrc);
    }
    #[kani::proof]
    fn kmer_dna_ops_k26() {
        kmer_dna_ops_law::<26, _>(&mut KaniSrc);
    }
    #[kani::proof]
    fn kmer_dna_ops_k27() {
        kmer_dna_ops_law::<27, _>(&mut KaniSrc);
    }
    #[kani::proof]
    fn kmer_dna_ops_k28() {
        kmer_dna_ops_law::<28, _>(&mut KaniSrc);
    }
    #[kani::proof]
    fn kmer_dna_ops_k29() {
        kmer_dna_ops_law::<29, _>(&mut KaniSrc);
    }
    #[kani::proof]
    fn kmer_dna_ops_k30() {
        kmer_dna_ops_law::<30, _>(&mut KaniSrc);
    }
    #[kani::proof]
    fn kmer_dna_ops_k31() {
        kmer_dna_ops_law::<31, _>(&mut KaniSrc);
    }
    #[kani::proof]
    fn kmer_dna_ops_k32() {
        kmer_dna_ops_law::<32, _>(&mut KaniSrc);
    }
    #[kani::proof]
    fn kmer_rev_iupac_k2() {
        kmer_rev_law::<Iupac, 2, _>(&mut KaniSrc);
    }
    #[kani::proof]
    fn kmer_rev_iupac_k5() {
        kmer_rev_law::<Iupac, 5, _>(&mut KaniSrc);
    }
    #[kani::proof]
    fn kmer_rev_iupac_k16() {
        kmer_rev_law::<Iupac, 16, _>(&mut KaniSrc);
    }
    #[kani::proof]
    fn kmer_rev_amino_k3() {
        kmer_rev_law::<Amino, 3, _>(&mut KaniSrc);
    }
    #[kani::proof]
    fn kmer_rev_amino_k10() {
        kmer_rev_law::<Amino, 10, _>(&mut KaniSrc);
    }
    #[kani::proof]
    fn kmer_rev_text_k1() {
        kmer_rev_law::<text::Dna, 1, _>(&mut KaniSrc);
    }
    #[kani::proof]
    fn kmer_rev_text_k8() {
        kmer_rev_law::<text::Dna, 8, _>(&mut KaniSrc);
    }
    #[kani::proof]
    fn kmer_rev_masked_iupac_k12() {
        kmer_rev_law::<masked::iupac::Iupac, 12, _>(&mut KaniSrc);
    }
    #[kani::proof]
    fn kmer_rev_degenerate_k7() {
        kmer_rev_law::<degenerate::dna::Dna, 7, _>(&mut KaniSrc);
    }
    #[kani::proof]
    fn kmer_rev_dna_k9() {
        kmer_rev_law::<Dna, 9, _>(&mut KaniSrc);
    }
    #[kani::proof]
    fn kmer_ord_dna_k5() {
        kmer_ord_law_usize::<Dna, 5, _>(&mut KaniSrc);
    }
    #[kani::proof]
    fn kmer_ord_dna_k32() {
        kmer_ord_law_usize::<Dna, 32, _>(&mut KaniSrc);
    }
    #[kani::proof]
    fn kmer_ord_text_k3() {
        kmer_ord_law_usize::<text::Dna, 3, _>(&mut KaniSrc);
    }
    #[kani::proof]
    fn kmer_ord_miupac_k12_u64() {
        kmer_ord_law_u64::<masked::iupac::Iupac, 12, _>(&mut KaniSrc);
    }
    #[kani::proof]
    fn kmer_ord_dna_k40_u128() {
        kmer_ord_law_u128(&mut KaniSrc);
    }
    #[kani::proof]
    fn text_bits_identity() {
        super::laws::text_bits_identity(&mut KaniSrc);
    }
    #[kani::proof]
    fn conversions() {
        conversion_law(&mut KaniSrc);
    }
}
