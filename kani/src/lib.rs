//! Kani harness crate: instantiates the shared laws (../laws/laws.rs) with symbolic inputs.
//! Every harness is loop-free over its symbolic inputs (loops only range over the concrete
//! oracle tables), so a pass is a complete proof over the whole u8 / usize domain.
#![allow(dead_code)]

#[path = "../../laws/laws.rs"]
pub mod laws;

#[cfg(kani)]
mod harness {
    use super::laws::*;
    use bio_seq::codec::{degenerate, masked, text};
    use bio_seq::prelude::*;

    pub struct KaniSrc;
    impl Src for KaniSrc {
        fn u8(&mut self) -> u8 {
            kani::any()
        }
        fn usize(&mut self) -> usize {
            kani::any()
        }
        fn assume(&mut self, c: bool) -> bool {
            kani::assume(c);
            true
        }
        fn check(&mut self, label: &'static str, c: bool) {
            let _ = label;
            kani::assert(c, "law clause (unlabelled path)");
        }
        fn cover(&mut self, label: &'static str, c: bool) {
            let _ = (c, label);
        }
    }

    macro_rules! codec_harness {
        ($name:ident, $items:ident, $t:ty) => {
            #[kani::proof]
            fn $name() {
                codec_contract::<$t, _>(&mut KaniSrc);
            }
        };
    }
    codec_harness!(codec_contract_dna, codec_items_dna, Dna);
    codec_harness!(codec_contract_iupac, codec_items_iupac, Iupac);
    codec_harness!(codec_contract_amino, codec_items_amino, Amino);
    codec_harness!(codec_contract_text, codec_items_text, text::Dna);
    codec_harness!(codec_contract_masked_dna, codec_items_masked_dna, masked::dna::Dna);
    codec_harness!(codec_contract_masked_iupac, codec_items_masked_iupac, masked::iupac::Iupac);
    codec_harness!(codec_contract_degenerate, codec_items_degenerate, degenerate::dna::Dna);

    #[kani::proof]
    fn complement_dna() {
        complement_law::<Dna, _>(&mut KaniSrc);
    }
    #[kani::proof]
    fn complement_iupac() {
        complement_law::<Iupac, _>(&mut KaniSrc);
    }
    #[kani::proof]
    fn complement_masked_dna() {
        complement_law::<masked::dna::Dna, _>(&mut KaniSrc);
    }
    #[kani::proof]
    fn complement_masked_iupac() {
        complement_law::<masked::iupac::Iupac, _>(&mut KaniSrc);
    }
    #[kani::proof]
    fn complement_degenerate() {
        complement_law::<degenerate::dna::Dna, _>(&mut KaniSrc);
    }
    #[kani::proof]
    fn mask_iupac() {
        mask_law_iupac(&mut KaniSrc);
    }
    #[kani::proof]
    fn mask_dna() {
        mask_law_dna(&mut KaniSrc);
    }
    #[kani::proof]
    fn iupac_sets() {
        iupac_set_law(&mut KaniSrc);
    }
    #[kani::proof]
    fn amino_table() {
        amino_table_law(&mut KaniSrc);
    }
    #[kani::proof]
    fn text_bits_identity() {
        super::laws::text_bits_identity(&mut KaniSrc);
    }
    #[kani::proof]
    fn conversions() {
        conversion_law(&mut KaniSrc);
    }
}
