//! Layer L: per-symbol and word-level laws, written once against an abstract input source.
//! Included by `#[path]` from the Kani harness crate (inputs = kani::any, complete over the
//! whole u8 / usize domain) and from the native witness crate (inputs = recorded playback
//! bytes or enumerations), so a Kani counterexample replays on the real code unchanged.
//!
//! The oracles below are written from the documentation of each alphabet (module docs, IUPAC
//! nucleotide code standard, NCBI translation table 1), not from the implementation.
#![allow(dead_code, clippy::all)]

use bio_seq::codec::{degenerate, masked, text};
use bio_seq::prelude::*;

/// A law clause.  Under Kani the label must be a literal of `kani::assert`; natively it goes
/// through `Src::check`.
macro_rules! chk {
    ($s:expr, $l:literal, $c:expr) => {{
        #[cfg(kani)]
        {
            let _ = &$s;
            kani::assert($c, $l);
        }
        #[cfg(not(kani))]
        {
            let __c: bool = $c;
            $s.check($l, __c);
        }
    }};
}
macro_rules! cov {
    ($s:expr, $l:literal, $c:expr) => {{
        #[cfg(kani)]
        {
            let _ = &$s;
            kani::cover!($c, $l);
        }
        #[cfg(not(kani))]
        {
            let __c: bool = $c;
            $s.cover($l, __c);
        }
    }};
}

/// Abstract source of inputs and sink of verdicts.
pub trait Src {
    fn u8(&mut self) -> u8;
    fn usize(&mut self) -> usize;
    fn u64(&mut self) -> u64 {
        self.usize() as u64
    }
    fn u128(&mut self) -> u128 {
        let lo = self.usize() as u128;
        let hi = self.usize() as u128;
        lo | (hi << 64)
    }
    /// restrict the inputs (Kani: kani::assume; native: skip the case)
    fn assume(&mut self, c: bool) -> bool;
    /// a law clause; `label` names the obligation
    fn check(&mut self, label: &'static str, c: bool);
    /// reachability marker (Kani: kani::cover!)
    fn cover(&mut self, label: &'static str, c: bool);
}

#[derive(Clone, Copy)]
pub struct Entry<C: Copy + 'static> {
    pub sym: C,
    pub ch: u8,
    pub code: u8,
    pub alts: &'static [u8],
}

const fn e<C: Copy>(sym: C, ch: u8, code: u8, alts: &'static [u8]) -> Entry<C> {
    Entry { sym, ch, code, alts }
}

/// Documented alphabet of a codec.
pub trait Oracle: Codec + 'static {
    const NAME: &'static str;
    const WIDTH: u8;
    /// every bit pattern below 2^WIDTH is documented (true for the seven built-in codecs; the Verus layer
    /// relies on it as law L8); derived codecs in general refuse the undeclared patterns
    const FULL: bool = true;
    fn len() -> usize;
    fn entry(i: usize) -> Entry<Self>;
    /// index of the documented symbol a bit pattern decodes to
    fn expect_bits(b: u8) -> Option<usize> {
        let mut i = 0;
        while i < Self::len() {
            let t = Self::entry(i);
            if t.code == b {
                return Some(i);
            }
            let mut j = 0;
            while j < t.alts.len() {
                if t.alts[j] == b {
                    return Some(i);
                }
                j += 1;
            }
            i += 1;
        }
        None
    }
    /// index of the documented symbol a byte parses to
    fn expect_ascii(c: u8) -> Option<usize> {
        let mut i = 0;
        while i < Self::len() {
            if Self::entry(i).ch == c {
                return Some(i);
            }
            i += 1;
        }
        None
    }
}

// ---------------------------------------------------------------- documented alphabets
impl Oracle for Dna {
    const NAME: &'static str = "dna";
    const WIDTH: u8 = 2;
    fn len() -> usize {
        4
    }
    fn entry(i: usize) -> Entry<Self> {
        // module doc: `A: 00, C: 01, G: 10, T: 11`
        const T: [Entry<Dna>; 4] = [e(Dna::A, b'A', 0, &[]), e(Dna::C, b'C', 1, &[]), e(Dna::G, b'G', 2, &[]), e(Dna::T, b'T', 3, &[])];
        T[i]
    }
}

/// IUPAC nucleotide code: letter -> member set as a mask A=8, C=4, G=2, T=1 (module doc table)
pub const fn iupac_set(letter: u8) -> u8 {
    const A: u8 = 8;
    const C: u8 = 4;
    const G: u8 = 2;
    const T: u8 = 1;
    match letter {
        b'A' => A,
        b'C' => C,
        b'G' => G,
        b'T' => T,
        b'R' => A | G,
        b'Y' => C | T,
        b'S' => C | G,
        b'W' => A | T,
        b'K' => G | T,
        b'M' => A | C,
        b'B' => C | G | T,
        b'D' => A | G | T,
        b'H' => A | C | T,
        b'V' => A | C | G,
        b'N' => A | C | G | T,
        b'-' => 0,
        _ => 0xff,
    }
}

pub const IUPAC_LETTERS: [u8; 16] = *b"ACGTRYSWKMBDHVN-";

/// letter of a member set (sets are 4-bit masks)
pub fn iupac_letter(set: u8) -> u8 {
    let mut i = 0;
    while i < 16 {
        if iupac_set(IUPAC_LETTERS[i]) == set {
            return IUPAC_LETTERS[i];
        }
        i += 1;
    }
    0
}

/// complement of a member set: complement each member (A<->T, C<->G) = reverse the 4 bits
pub const fn comp_set(set: u8) -> u8 {
    ((set & 8) >> 3) | ((set & 4) >> 1) | ((set & 2) << 1) | ((set & 1) << 3)
}

/// IUPAC complement on display letters, case and the punctuation symbols preserved
pub fn comp_letter(ch: u8) -> u8 {
    let upper = ch.to_ascii_uppercase();
    let set = iupac_set(upper);
    if set == 0xff || upper == b'-' {
        return ch; // '-', '.', '?', '!' are their own complement
    }
    let c = iupac_letter(comp_set(set));
    if ch.is_ascii_lowercase() {
        c.to_ascii_lowercase()
    } else {
        c
    }
}

impl Oracle for Iupac {
    const NAME: &'static str = "iupac";
    const WIDTH: u8 = 4;
    fn len() -> usize {
        16
    }
    fn entry(i: usize) -> Entry<Self> {
        const V: [Iupac; 16] = [
            Iupac::A, Iupac::C, Iupac::G, Iupac::T, Iupac::R, Iupac::Y, Iupac::S, Iupac::W, Iupac::K, Iupac::M, Iupac::B, Iupac::D,
            Iupac::H, Iupac::V, Iupac::N, Iupac::X,
        ];
        e(V[i], IUPAC_LETTERS[i], iupac_set(IUPAC_LETTERS[i]), &[])
    }
}

/// NCBI translation table 1, codons in TCAG order (first base slowest)
pub const NCBI1: &[u8; 64] = b"FFLLSSSSYY**CC*WLLLLPPPPHHQQRRRRIIIMTTTTNNKKSSRRVVVVAAAADDEEGGGG";

/// bio-seq base code A=0,C=1,G=2,T=3 -> TCAG index
const fn tcag(code: u8) -> usize {
    match code {
        0 => 2,
        1 => 1,
        2 => 3,
        _ => 0,
    }
}

/// standard genetic code for the 6-bit pattern b = base1 + 4*base2 + 16*base3
pub const fn ncbi_amino(b: u8) -> u8 {
    let b1 = tcag(b & 3);
    let b2 = tcag((b >> 2) & 3);
    let b3 = tcag((b >> 4) & 3);
    NCBI1[b1 * 16 + b2 * 4 + b3]
}

const fn base_code(c: u8) -> u8 {
    match c {
        b'A' => 0,
        b'C' => 1,
        b'G' => 2,
        _ => 3,
    }
}

/// packed code of a codon written as text, first base in the low bits
pub const fn codon(s: &[u8; 3]) -> u8 {
    base_code(s[0]) | (base_code(s[1]) << 2) | (base_code(s[2]) << 4)
}

impl Oracle for Amino {
    const NAME: &'static str = "amino";
    const WIDTH: u8 = 6;
    fn len() -> usize {
        21
    }
    fn entry(i: usize) -> Entry<Self> {
        // canonical codons as documented next to each variant in codec/amino.rs
        const T: [Entry<Amino>; 21] = [
            e(Amino::A, b'A', codon(b"GCA"), &[]),
            e(Amino::C, b'C', codon(b"TGC"), &[]),
            e(Amino::D, b'D', codon(b"GAC"), &[]),
            e(Amino::E, b'E', codon(b"GAA"), &[]),
            e(Amino::F, b'F', codon(b"TTC"), &[]),
            e(Amino::G, b'G', codon(b"GGA"), &[]),
            e(Amino::H, b'H', codon(b"CAC"), &[]),
            e(Amino::I, b'I', codon(b"ATA"), &[]),
            e(Amino::K, b'K', codon(b"AAA"), &[]),
            e(Amino::L, b'L', codon(b"CTA"), &[]),
            e(Amino::M, b'M', codon(b"ATG"), &[]),
            e(Amino::N, b'N', codon(b"AAC"), &[]),
            e(Amino::P, b'P', codon(b"CCA"), &[]),
            e(Amino::Q, b'Q', codon(b"CAA"), &[]),
            e(Amino::R, b'R', codon(b"AGA"), &[]),
            e(Amino::S, b'S', codon(b"AGC"), &[]),
            e(Amino::T, b'T', codon(b"ACA"), &[]),
            e(Amino::V, b'V', codon(b"GTA"), &[]),
            e(Amino::W, b'W', codon(b"TGG"), &[]),
            e(Amino::Y, b'Y', codon(b"TAC"), &[]),
            e(Amino::X, b'*', codon(b"TAA"), &[]),
        ];
        T[i]
    }
    /// every 6-bit pattern is a codon; it decodes to the amino acid of NCBI table 1
    fn expect_bits(b: u8) -> Option<usize> {
        if b >= 64 {
            return None;
        }
        Self::expect_ascii(ncbi_amino(b))
    }
}

impl Oracle for text::Dna {
    const NAME: &'static str = "text";
    const WIDTH: u8 = 8;
    fn len() -> usize {
        5
    }
    fn entry(i: usize) -> Entry<Self> {
        // documented symbols: A C G T N, each stored as its ASCII byte
        let c = b"ACGTN"[i];
        // text::Dna is #[repr(transparent)] over its byte and has no public constructor that is
        // independent of the codec functions under test
        e(unsafe { core::mem::transmute::<u8, text::Dna>(c) }, c, c, &[])
    }
}

impl Oracle for masked::dna::Dna {
    const NAME: &'static str = "masked_dna";
    const WIDTH: u8 = 4;
    fn len() -> usize {
        14
    }
    fn entry(i: usize) -> Entry<Self> {
        use masked::dna::Dna as D;
        const T: [Entry<D>; 14] = [
            e(D::A, b'A', 0b1000, &[]),
            e(D::C, b'C', 0b0100, &[]),
            e(D::G, b'G', 0b0010, &[]),
            e(D::T, b'T', 0b0001, &[]),
            e(D::AMasked, b'a', 0b0111, &[]),
            e(D::CMasked, b'c', 0b1011, &[]),
            e(D::GMasked, b'g', 0b1101, &[]),
            e(D::TMasked, b't', 0b1110, &[]),
            e(D::N, b'N', 0b0000, &[]),
            e(D::NMasked, b'n', 0b1111, &[]),
            e(D::Gap, b'-', 0b1100, &[0b0011]),
            e(D::Pad, b'.', 0b1010, &[0b0101]),
            e(D::Unknown1, b'?', 0b0110, &[]),
            e(D::Unknown2, b'!', 0b1001, &[]),
        ];
        T[i]
    }
}

/// masked 5-bit IUPAC: bits 4,3 = A,C ; bit 2 = mask flag ; bits 1,0 = G,T (codec doc)
pub const fn mi_code(letter: u8, masked: bool) -> u8 {
    let set = iupac_set(letter);
    ((set >> 2) << 3) | (set & 3) | if masked { 4 } else { 0 }
}

impl Oracle for masked::iupac::Iupac {
    const NAME: &'static str = "masked_iupac";
    const WIDTH: u8 = 5;
    fn len() -> usize {
        32
    }
    fn entry(i: usize) -> Entry<Self> {
        use masked::iupac::Iupac as I;
        const U: [(I, u8); 16] = [
            (I::A, b'A'), (I::C, b'C'), (I::G, b'G'), (I::T, b'T'), (I::Y, b'Y'), (I::R, b'R'), (I::W, b'W'), (I::S, b'S'),
            (I::K, b'K'), (I::M, b'M'), (I::D, b'D'), (I::V, b'V'), (I::H, b'H'), (I::B, b'B'), (I::N, b'N'), (I::X, b'-'),
        ];
        const L: [(I, u8); 16] = [
            (I::AMasked, b'A'), (I::CMasked, b'C'), (I::GMasked, b'G'), (I::TMasked, b'T'), (I::YMasked, b'Y'), (I::RMasked, b'R'),
            (I::WMasked, b'W'), (I::SMasked, b'S'), (I::KMasked, b'K'), (I::MMasked, b'M'), (I::DMasked, b'D'), (I::VMasked, b'V'),
            (I::HMasked, b'H'), (I::BMasked, b'B'), (I::NMasked, b'N'), (I::XMasked, b'-'),
        ];
        if i < 16 {
            e(U[i].0, U[i].1, mi_code(U[i].1, false), &[])
        } else {
            let (v, l) = L[i - 16];
            let ch = if l == b'-' { b'.' } else { l.to_ascii_lowercase() };
            e(v, ch, mi_code(l, true), &[])
        }
    }
}

impl Oracle for degenerate::dna::Dna {
    const NAME: &'static str = "degenerate";
    const WIDTH: u8 = 1;
    fn len() -> usize {
        2
    }
    fn entry(i: usize) -> Entry<Self> {
        use degenerate::dna::Dna as D;
        // doc: `S`trong (G/C) = 1, `W`eak (A/T) = 0
        const T: [Entry<D>; 2] = [e(D::W, b'W', 0, &[]), e(D::S, b'S', 1, &[])];
        T[i]
    }
    fn expect_ascii(c: u8) -> Option<usize> {
        match c {
            b'W' | b'A' | b'T' => Some(0),
            b'S' | b'C' | b'G' => Some(1),
            _ => None,
        }
    }
}

// ---------------------------------------------------------------- C05 / C01: codec contract
/// L0, L2, L3, L8: one symbolic bit pattern `b` (all 256 values)
pub fn codec_bits_law<C: Oracle, S: Src>(s: &mut S) {
    let b = s.u8();
    chk!(s, "L0 BITS equals the documented width", C::BITS == C::WIDTH);
    let exp = C::expect_bits(b);
    let got = C::try_from_bits(b);
    match (exp, got) {
        (None, None) => {}
        (Some(i), Some(g)) => {
            chk!(s, "L3 try_from_bits decodes to the documented symbol", g == C::entry(i).sym);
        }
        (None, Some(_)) => chk!(s, "L3 try_from_bits refuses undocumented bit patterns", false),
        (Some(_), None) => chk!(s, "L3 try_from_bits accepts every documented bit pattern", false),
    }
    if let Some(i) = exp {
        cov!(s, "some bit pattern is documented", true);
        let u = C::unsafe_from_bits(b);
        chk!(s, "L2 unsafe_from_bits agrees with try_from_bits where it succeeds", u == C::entry(i).sym);
    }
    if C::FULL && C::WIDTH < 8 && b < (1u8 << C::WIDTH) {
        chk!(s, "L8 every pattern below 2^BITS decodes", exp.is_some() && got.is_some());
    }
}

/// L5, L7: one symbolic byte `c` as ASCII input (all 256 values)
pub fn codec_ascii_law<C: Oracle, S: Src>(s: &mut S) {
    let c = s.u8();
    let expa = C::expect_ascii(c);
    let gota = C::try_from_ascii(c);
    match (expa, gota) {
        (None, None) => {}
        (Some(i), Some(g)) => chk!(s, "L5 try_from_ascii parses to the documented symbol", g == C::entry(i).sym),
        (None, Some(_)) => chk!(s, "L5 try_from_ascii refuses bytes outside the alphabet", false),
        (Some(_), None) => chk!(s, "L5 try_from_ascii accepts every symbol character", false),
    }
    if let Some(i) = expa {
        cov!(s, "some byte is a symbol character", true);
        let u = C::unsafe_from_ascii(c);
        chk!(s, "L7 unsafe_from_ascii agrees with try_from_ascii where it succeeds", u == C::entry(i).sym);
    } else {
        cov!(s, "some byte is not a symbol character", true);
    }
}

/// L1, L4, L6 and distinctness: symbolic table rows k, j
pub fn codec_rows_law<C: Oracle, S: Src>(s: &mut S) {
    let k = s.usize();
    let j = s.usize();
    if !s.assume(k < C::len() && j < C::len()) {
        return;
    }
    let ek = C::entry(k);
    let ej = C::entry(j);
    chk!(s, "L1 to_bits is the documented code", ek.sym.to_bits() == ek.code);
    chk!(s, "L1 code fits the declared width", C::WIDTH >= 8 || ek.code < (1u8 << C::WIDTH));
    chk!(s, "L6 to_char is the documented character", ek.sym.to_char() == ek.ch as char);
    chk!(s, "L4 the canonical code decodes to the symbol", C::try_from_bits(ek.code) == Some(ek.sym) && C::unsafe_from_bits(ek.code) == ek.sym);
    chk!(s, "L6 the display character parses back", C::try_from_ascii(ek.ch) == Some(ek.sym) && C::unsafe_from_ascii(ek.ch) == ek.sym);
    if k != j {
        chk!(s, "distinct symbols have distinct codes", ek.sym.to_bits() != ej.sym.to_bits());
        chk!(s, "distinct symbols have distinct characters", ek.sym.to_char() != ej.sym.to_char());
        chk!(s, "distinct rows are distinct symbols", ek.sym != ej.sym);
    } else {
        cov!(s, "k == j reachable", true);
    }
}

/// L0-L8 (C05): the three parts on independent symbolic inputs
pub fn codec_contract<C: Oracle, S: Src>(s: &mut S) {
    codec_bits_law::<C, S>(s);
    codec_ascii_law::<C, S>(s);
    codec_rows_law::<C, S>(s);
}

/// items() lists every documented symbol exactly once (order is not part of C05)
pub fn codec_items<C: Oracle, S: Src>(s: &mut S) {
    let mut seen = [0u8; 40];
    let mut n = 0usize;
    for x in C::items() {
        n += 1;
        let mut i = 0;
        let mut hit = false;
        while i < C::len() {
            if C::entry(i).sym == x {
                seen[i] += 1;
                hit = true;
            }
            i += 1;
        }
        chk!(s, "items() yields only documented symbols", hit);
    }
    chk!(s, "items() yields as many symbols as documented", n == C::len());
    let mut i = 0;
    while i < C::len() {
        chk!(s, "items() yields every documented symbol exactly once", seen[i] == 1);
        i += 1;
    }
}

/// C17: a derived codec implements exactly what its declaration says: the codec contract against the
/// oracle computed from the declaration, plus `items()` = the variants in declaration order
pub fn derived_codec_law<C: Oracle, S: Src>(s: &mut S) {
    codec_contract::<C, S>(s);
    let mut n = 0usize;
    let mut ordered = true;
    for x in C::items() {
        if n >= C::len() || C::entry(n).sym != x {
            ordered = false;
        }
        n += 1;
    }
    chk!(s, "C17 items() lists the variants in declaration order", ordered && n == C::len());
}

// ---------------------------------------------------------------- C05 / C07: symbol complement
pub fn complement_law<C: Oracle + ComplementMut, S: Src>(s: &mut S) {
    let k = s.usize();
    if !s.assume(k < C::len()) {
        return;
    }
    let ek = C::entry(k);
    let mut x = ek.sym;
    x.comp();
    let want = if C::WIDTH == 1 { ek.ch } else { comp_letter(ek.ch) };
    chk!(s, "complement maps each symbol to its documented complement", x.to_char() == want as char);
    chk!(s, "complement stays inside the alphabet", C::try_from_bits(x.to_bits()) == Some(x));
    let mut y = x;
    y.comp();
    chk!(s, "complement is an involution on symbols", y == ek.sym);
    // also for every decodable bit pattern (alternatives included): comp(decode(b)) is decode-stable
    let b = s.u8();
    if let Some(i) = C::expect_bits(b) {
        let mut z = C::unsafe_from_bits(b);
        z.comp();
        let mut w = C::entry(i).sym;
        w.comp();
        chk!(s, "complement depends on the symbol only, not on which alternative code held it", z == w);
    }
    cov!(s, "complement law reachable", true);
}

// ---------------------------------------------------------------- C20: masking on symbols
pub fn mask_law_iupac<S: Src>(s: &mut S) {
    use masked::iupac::Iupac as I;
    let k = s.usize();
    if !s.assume(k < <I as Oracle>::len()) {
        return;
    }
    let ek = <I as Oracle>::entry(k);
    let lower = |c: u8| if c == b'-' || c == b'.' { b'.' } else { c.to_ascii_lowercase() };
    let upper = |c: u8| if c == b'-' || c == b'.' { b'-' } else { c.to_ascii_uppercase() };
    let mut m = ek.sym;
    m.mask();
    let mut u = ek.sym;
    u.unmask();
    chk!(s, "mask gives the lower-case form", m.to_char() == lower(ek.ch) as char);
    chk!(s, "unmask gives the upper-case form", u.to_char() == upper(ek.ch) as char);
    let mut mm = m;
    mm.mask();
    chk!(s, "mask is idempotent", mm == m);
    let mut uu = u;
    uu.unmask();
    chk!(s, "unmask is idempotent", uu == u);
    let mut mu = m;
    mu.unmask();
    chk!(s, "unmask after mask equals unmask", mu == u);
    // nucleotide set unchanged: the unmasked upper-case letter is the same
    chk!(s, "masking never changes the nucleotide set", upper(m.to_char() as u8) == upper(ek.ch) && upper(u.to_char() as u8) == upper(ek.ch));
    // commutes with complement
    let mut a = ek.sym;
    a.mask();
    a.comp();
    let mut b = ek.sym;
    b.comp();
    b.mask();
    chk!(s, "mask commutes with complement", a == b);
    let mut a = ek.sym;
    a.unmask();
    a.comp();
    let mut b = ek.sym;
    b.comp();
    b.unmask();
    chk!(s, "unmask commutes with complement", a == b);
    chk!(s, "to_mask/to_unmask agree with the in-place forms", ek.sym.to_mask() == m && ek.sym.to_unmask() == u);
    cov!(s, "mask law reachable", true);
}

pub fn mask_law_dna<S: Src>(s: &mut S) {
    use masked::dna::Dna as D;
    let k = s.usize();
    if !s.assume(k < <D as Oracle>::len()) {
        return;
    }
    let ek = <D as Oracle>::entry(k);
    let toggle = |c: u8| {
        if c.is_ascii_alphabetic() {
            if c.is_ascii_lowercase() {
                c.to_ascii_uppercase()
            } else {
                c.to_ascii_lowercase()
            }
        } else {
            c
        }
    };
    let mut m = ek.sym;
    m.mask();
    let mut u = ek.sym;
    u.unmask();
    // gap and pad unchanged; A,C,G,T,N toggle case.  '?' and '!' are not mentioned by the
    // property and are exempt (they swap with each other under bit inversion).
    if ek.ch != b'?' && ek.ch != b'!' {
        chk!(s, "mask toggles the case of A,C,G,T,N and fixes gap/pad", m.to_char() == toggle(ek.ch) as char);
        chk!(s, "unmask toggles the case of A,C,G,T,N and fixes gap/pad", u.to_char() == toggle(ek.ch) as char);
    }
    let mut mm = m;
    mm.mask();
    chk!(s, "mask is an involution", mm == ek.sym);
    let mut uu = u;
    uu.unmask();
    chk!(s, "unmask is an involution", uu == ek.sym);
    let mut a = ek.sym;
    a.mask();
    a.comp();
    let mut b = ek.sym;
    b.comp();
    b.mask();
    chk!(s, "mask commutes with complement", a == b);
    cov!(s, "mask law reachable", true);
}

// ---------------------------------------------------------------- C12: IUPAC set algebra on symbols
pub fn iupac_set_law<S: Src>(s: &mut S) {
    let a = s.u8();
    let b = s.u8();
    if !s.assume(a < 16 && b < 16) {
        return;
    }
    let sa = Iupac::unsafe_from_bits(a);
    let sb = Iupac::unsafe_from_bits(b);
    let set_a = iupac_set(sa.to_char() as u8);
    let set_b = iupac_set(sb.to_char() as u8);
    chk!(s, "an IUPAC code is its nucleotide set", set_a == a && set_b == b);
    chk!(s, "bitwise or of codes is the union's ambiguity code", Iupac::unsafe_from_bits(a | b).to_char() == iupac_letter(set_a | set_b) as char);
    chk!(s, "bitwise and of codes is the intersection's code (gap for the empty set)", Iupac::unsafe_from_bits(a & b).to_char() == iupac_letter(set_a & set_b) as char);
    let mut c = sa;
    c.comp();
    chk!(s, "complement complements each member of the set", iupac_set(c.to_char() as u8) == comp_set(set_a));
    // singleton conversion
    let d = s.u8();
    if s.assume(d < 4) {
        let base = Dna::unsafe_from_bits(d);
        let i = Iupac::from(base);
        chk!(s, "From<Dna> gives the singleton set with the same letter", i.to_char() == base.to_char() && (i.to_bits().count_ones() == 1));
    }
    cov!(s, "set law reachable", true);
}

// ---------------------------------------------------------------- C13: genetic code on symbols
pub fn amino_table_law<S: Src>(s: &mut S) {
    let b = s.u8();
    if !s.assume(b < 64) {
        return;
    }
    let a = Amino::unsafe_from_bits(b);
    chk!(s, "unsafe_from_bits(codon bits) is the NCBI table 1 amino acid", a.to_char() == ncbi_amino(b) as char);
    chk!(s, "try_from_bits agrees on every codon", Amino::try_from_bits(b) == Some(a));
    cov!(s, "amino law reachable", true);
}

// ---------------------------------------------------------------- C19: symbol conversions
pub fn conversion_law<S: Src>(s: &mut S) {
    let d = s.u8();
    if s.assume(d < 4) {
        let base = Dna::unsafe_from_bits(d);
        chk!(s, "Dna -> Iupac keeps the letter", Iupac::from(base).to_char() == base.to_char());
        chk!(s, "Dna -> text keeps the letter", text::Dna::from(base).to_char() == base.to_char());
        chk!(s, "text -> Dna round trip", Dna::try_from(text::Dna::from(base)) == Ok(base));
    }
    let c = s.u8();
    let t = text::Dna::unsafe_from_bits(c);
    let r = Dna::try_from(t);
    match c {
        b'A' | b'C' | b'G' | b'T' => chk!(s, "text -> Dna succeeds for A,C,G,T with the same letter", match r {
            Ok(x) => x.to_char() == c as char,
            Err(_) => false,
        }),
        _ => chk!(s, "text -> Dna fails for every other byte and names it", r == Err(ParseBioError::UnrecognisedBase(c))),
    }
    cov!(s, "conversion law reachable", true);
}

// ---------------------------------------------------------------- behaviour contract of known finding F6
/// text::Dna::try_from_bits is the identity embedding of all 256 bytes (what the code does today;
/// the documented alphabet is A,C,G,T,N only - known finding F6).  Any other deviation is new.
pub fn text_bits_identity<S: Src>(s: &mut S) {
    let b = s.u8();
    match text::Dna::try_from_bits(b) {
        Some(x) => {
            chk!(s, "F6 behaviour: try_from_bits(b) holds exactly b", x.to_bits() == b && x == text::Dna::unsafe_from_bits(b));
        }
        None => chk!(s, "F6 behaviour: try_from_bits accepts every byte", false),
    }
    cov!(s, "F6 behaviour reachable", true);
}

// ---------------------------------------------------------------- C09: word-level k-mer operations
#[inline]
fn sym_of(v: usize, i: usize, w: usize) -> usize {
    (v >> (i * w)) & ((1usize << w) - 1)
}

/// complement / reverse / reverse-complement of a 2-bit k-mer against the symbol-level definition,
/// for every value of the storage word below 4^K and a symbolic position i
pub fn kmer_dna_ops_law<const K: usize, S: Src>(s: &mut S) {
    let v = s.usize();
    let i = s.usize();
    if !s.assume(i < K && (K == 32 || v < (1usize << (2 * K)))) {
        return;
    }
    let k: Kmer<Dna, K> = Kmer::from(v);
    let c = k.to_comp();
    let r = k.to_rev();
    let rc = k.to_revcomp();
    let (vc, vr, vrc) = (usize::from(&c), usize::from(&r), usize::from(&rc));
    let fits = |x: usize| K == 32 || x < (1usize << (2 * K));
    chk!(s, "k-mer results stay in canonical form (value below 2^(K*BITS))", fits(vc) && fits(vr) && fits(vrc));
    chk!(s, "k-mer complement complements symbol i", sym_of(vc, i, 2) == 3 - sym_of(v, i, 2));
    chk!(s, "k-mer reverse puts symbol K-1-i at position i", sym_of(vr, i, 2) == sym_of(v, K - 1 - i, 2));
    chk!(s, "k-mer reverse-complement is both at once", sym_of(vrc, i, 2) == 3 - sym_of(v, K - 1 - i, 2));
    chk!(s, "k-mer reverse-complement is an involution", rc.to_revcomp() == k);
    chk!(s, "k-mer reverse and complement are involutions", r.to_rev() == k && c.to_comp() == k);
    chk!(s, "k-mer revcomp equals either order of composition", c.to_rev() == rc && r.to_comp() == rc);
    let canon = if k <= rc { k } else { rc };
    let rcrc = rc.to_revcomp();
    let canon2 = if rc <= rcrc { rc } else { rcrc };
    chk!(s, "canonical form min(k, revcomp(k)) is the same for a k-mer and its reverse complement", canon == canon2);
    cov!(s, "kmer ops law reachable", true);
}

/// reverse of a k-mer over any codec width (usize storage): symbol i of the result is symbol K-1-i
pub fn kmer_rev_law<C: Oracle, const K: usize, S: Src>(s: &mut S) {
    let w = C::BITS as usize;
    let v = s.usize();
    let i = s.usize();
    if !s.assume(i < K && (K * w == 64 || v < (1usize << (K * w)))) {
        return;
    }
    let k: Kmer<C, K> = Kmer::from(v);
    let r = k.to_rev();
    let vr = usize::from(&r);
    chk!(s, "k-mer reverse (any codec) stays canonical", K * w == 64 || vr < (1usize << (K * w)));
    chk!(s, "k-mer reverse (any codec) puts symbol K-1-i at position i", sym_of(vr, i, w) == sym_of(v, K - 1 - i, w));
    cov!(s, "kmer rev law reachable", true);
}

// ---------------------------------------------------------------- C10: derived ordering on k-mers
pub fn kmer_ord_law_usize<C: Oracle + Ord, const K: usize, S: Src>(s: &mut S) {
    let (a, b, c) = (s.usize(), s.usize(), s.usize());
    let (ka, kb, kc): (Kmer<C, K>, Kmer<C, K>, Kmer<C, K>) = (Kmer::from(a), Kmer::from(b), Kmer::from(c));
    chk!(s, "k-mer order is the numeric order of the packed integer", ka.cmp(&kb) == a.cmp(&b) && (ka < kb) == (a < b) && (ka <= kb) == (a <= b));
    chk!(s, "k-mer order is consistent with equality", (ka == kb) == (a == b) && (ka.cmp(&kb) == core::cmp::Ordering::Equal) == (ka == kb));
    chk!(s, "k-mer partial_cmp agrees with cmp", ka.partial_cmp(&kb) == Some(ka.cmp(&kb)));
    chk!(s, "k-mer order is total and transitive", (ka <= kb || kb <= ka) && (!(ka <= kb && kb <= kc) || ka <= kc));
    chk!(s, "min/max of k-mers follow the integer", usize::from(&core::cmp::min(ka, kb)) == core::cmp::min(a, b) && usize::from(&core::cmp::max(ka, kb)) == core::cmp::max(a, b));
    cov!(s, "kmer ord law reachable", true);
}
#[cfg(not(no_wide_ord))]
pub fn kmer_ord_law_u64<C: Oracle + Ord, const K: usize, S: Src>(s: &mut S) {
    let (a, b) = (s.u64(), s.u64());
    let (ka, kb): (Kmer<C, K, u64>, Kmer<C, K, u64>) = (Kmer::from(a), Kmer::from(b));
    chk!(s, "u64 k-mer order is the numeric order of the packed integer", ka.cmp(&kb) == a.cmp(&b) && (ka == kb) == (a == b));
    cov!(s, "kmer ord u64 reachable", true);
}
#[cfg(not(no_wide_ord))]
pub fn kmer_ord_law_u128<S: Src>(s: &mut S) {
    let (a, b) = (s.u128(), s.u128());
    let ka: Kmer<Dna, 40, u128> = Kmer { _p: core::marker::PhantomData, bs: a };
    let kb: Kmer<Dna, 40, u128> = Kmer { _p: core::marker::PhantomData, bs: b };
    chk!(s, "u128 k-mer order is the numeric order of the packed integer", ka.cmp(&kb) == a.cmp(&b) && (ka == kb) == (a == b));
    cov!(s, "kmer ord u128 reachable", true);
}

// ---------------------------------------------------------------- dispatch by harness name
/// run the law behind a Kani harness name; false if the name is unknown
pub fn dispatch<S: Src>(name: &str, s: &mut S) -> bool {
    match name {
        "codec_contract_dna" => codec_contract::<Dna, S>(s),
        "codec_contract_iupac" => codec_contract::<Iupac, S>(s),
        "codec_contract_amino" => codec_contract::<Amino, S>(s),
        "codec_contract_text" => codec_contract::<text::Dna, S>(s),
        "codec_contract_masked_dna" => codec_contract::<masked::dna::Dna, S>(s),
        "codec_contract_masked_iupac" => codec_contract::<masked::iupac::Iupac, S>(s),
        "codec_contract_degenerate" => codec_contract::<degenerate::dna::Dna, S>(s),
        "codec_ascii_dna" => codec_ascii_law::<Dna, S>(s),
        "codec_rows_dna" => codec_rows_law::<Dna, S>(s),
        "codec_ascii_iupac" => codec_ascii_law::<Iupac, S>(s),
        "codec_rows_iupac" => codec_rows_law::<Iupac, S>(s),
        "codec_ascii_amino" => codec_ascii_law::<Amino, S>(s),
        "codec_rows_amino" => codec_rows_law::<Amino, S>(s),
        "codec_ascii_text" => codec_ascii_law::<text::Dna, S>(s),
        "codec_rows_text" => codec_rows_law::<text::Dna, S>(s),
        "codec_ascii_masked_dna" => codec_ascii_law::<masked::dna::Dna, S>(s),
        "codec_rows_masked_dna" => codec_rows_law::<masked::dna::Dna, S>(s),
        "codec_ascii_masked_iupac" => codec_ascii_law::<masked::iupac::Iupac, S>(s),
        "codec_rows_masked_iupac" => codec_rows_law::<masked::iupac::Iupac, S>(s),
        "codec_ascii_degenerate" => codec_ascii_law::<degenerate::dna::Dna, S>(s),
        "codec_rows_degenerate" => codec_rows_law::<degenerate::dna::Dna, S>(s),
        "complement_dna" => complement_law::<Dna, S>(s),
        "complement_iupac" => complement_law::<Iupac, S>(s),
        "complement_masked_dna" => complement_law::<masked::dna::Dna, S>(s),
        "complement_masked_iupac" => complement_law::<masked::iupac::Iupac, S>(s),
        "complement_degenerate" => complement_law::<degenerate::dna::Dna, S>(s),
        "mask_iupac" => mask_law_iupac(s),
        "mask_dna" => mask_law_dna(s),
        "iupac_sets" => iupac_set_law(s),
        "amino_table" => amino_table_law(s),
        "conversions" => conversion_law(s),
        "text_bits_identity" => text_bits_identity(s),
        "kmer_dna_ops_k1" => kmer_dna_ops_law::<1, S>(s),
        "kmer_dna_ops_k2" => kmer_dna_ops_law::<2, S>(s),
        "kmer_dna_ops_k3" => kmer_dna_ops_law::<3, S>(s),
        "kmer_dna_ops_k4" => kmer_dna_ops_law::<4, S>(s),
        "kmer_dna_ops_k5" => kmer_dna_ops_law::<5, S>(s),
        "kmer_dna_ops_k6" => kmer_dna_ops_law::<6, S>(s),
        "kmer_dna_ops_k7" => kmer_dna_ops_law::<7, S>(s),
        "kmer_dna_ops_k8" => kmer_dna_ops_law::<8, S>(s),
        "kmer_dna_ops_k9" => kmer_dna_ops_law::<9, S>(s),
        "kmer_dna_ops_k10" => kmer_dna_ops_law::<10, S>(s),
        "kmer_dna_ops_k11" => kmer_dna_ops_law::<11, S>(s),
        "kmer_dna_ops_k12" => kmer_dna_ops_law::<12, S>(s),
        "kmer_dna_ops_k13" => kmer_dna_ops_law::<13, S>(s),
        "kmer_dna_ops_k14" => kmer_dna_ops_law::<14, S>(s),
        "kmer_dna_ops_k15" => kmer_dna_ops_law::<15, S>(s),
        "kmer_dna_ops_k16" => kmer_dna_ops_law::<16, S>(s),
        "kmer_dna_ops_k17" => kmer_dna_ops_law::<17, S>(s),
        "kmer_dna_ops_k18" => kmer_dna_ops_law::<18, S>(s),
        "kmer_dna_ops_k19" => kmer_dna_ops_law::<19, S>(s),
        "kmer_dna_ops_k20" => kmer_dna_ops_law::<20, S>(s),
        "kmer_dna_ops_k21" => kmer_dna_ops_law::<21, S>(s),
        "kmer_dna_ops_k22" => kmer_dna_ops_law::<22, S>(s),
        "kmer_dna_ops_k23" => kmer_dna_ops_law::<23, S>(s),
        "kmer_dna_ops_k24" => kmer_dna_ops_law::<24, S>(s),
        "kmer_dna_ops_k25" => kmer_dna_ops_law::<25, S>(s),
        "kmer_dna_ops_k26" => kmer_dna_ops_law::<26, S>(s),
        "kmer_dna_ops_k27" => kmer_dna_ops_law::<27, S>(s),
        "kmer_dna_ops_k28" => kmer_dna_ops_law::<28, S>(s),
        "kmer_dna_ops_k29" => kmer_dna_ops_law::<29, S>(s),
        "kmer_dna_ops_k30" => kmer_dna_ops_law::<30, S>(s),
        "kmer_dna_ops_k31" => kmer_dna_ops_law::<31, S>(s),
        "kmer_dna_ops_k32" => kmer_dna_ops_law::<32, S>(s),
        "kmer_rev_iupac_k2" => kmer_rev_law::<Iupac, 2, S>(s),
        "kmer_rev_iupac_k5" => kmer_rev_law::<Iupac, 5, S>(s),
        "kmer_rev_iupac_k16" => kmer_rev_law::<Iupac, 16, S>(s),
        "kmer_rev_amino_k3" => kmer_rev_law::<Amino, 3, S>(s),
        "kmer_rev_amino_k10" => kmer_rev_law::<Amino, 10, S>(s),
        "kmer_rev_text_k1" => kmer_rev_law::<text::Dna, 1, S>(s),
        "kmer_rev_text_k8" => kmer_rev_law::<text::Dna, 8, S>(s),
        "kmer_rev_masked_iupac_k12" => kmer_rev_law::<masked::iupac::Iupac, 12, S>(s),
        "kmer_rev_degenerate_k7" => kmer_rev_law::<degenerate::dna::Dna, 7, S>(s),
        "kmer_rev_dna_k9" => kmer_rev_law::<Dna, 9, S>(s),
        "kmer_ord_dna_k5" => kmer_ord_law_usize::<Dna, 5, S>(s),
        "kmer_ord_dna_k32" => kmer_ord_law_usize::<Dna, 32, S>(s),
        "kmer_ord_text_k3" => kmer_ord_law_usize::<text::Dna, 3, S>(s),
        #[cfg(not(no_wide_ord))]
        "kmer_ord_miupac_k12_u64" => kmer_ord_law_u64::<masked::iupac::Iupac, 12, S>(s),
        #[cfg(not(no_wide_ord))]
        "kmer_ord_dna_k40_u128" => kmer_ord_law_u128(s),
        _ => return false,
    }
    true
}

#[cfg(not(kani))]
pub fn all_items<S: Src>(s: &mut S) {
    codec_items::<Dna, S>(s);
    codec_items::<Iupac, S>(s);
    codec_items::<Amino, S>(s);
    codec_items::<text::Dna, S>(s);
    codec_items::<masked::dna::Dna, S>(s);
    codec_items::<masked::iupac::Iupac, S>(s);
    codec_items::<degenerate::dna::Dna, S>(s);
}
