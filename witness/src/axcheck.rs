//! Sanity check of layer B: every assumed bitvec contract of contracts/00_prelude.vrs is run on the real
//! bitvec for small sizes (all bit strings of length <= 10 where feasible, random up to 200 bits, every
//! head offset 0..63) and compared with the axiom's right-hand side computed on Vec<bool>.
//! BOUNDED - this is not a proof; a failure means the trusted base is wrong (every check exits 2).
use crate::rng::Rng;
use bitvec::prelude::*;
use std::hash::{Hash, Hasher};
use std::panic::{catch_unwind, AssertUnwindSafe};

type Bs = BitSlice<usize, Lsb0>;
type Bv = BitVec<usize, Lsb0>;

pub struct Ax {
    pub cases: usize,
    pub axioms: Vec<&'static str>,
    pub failures: Vec<String>,
}
impl Ax {
    fn chk(&mut self, name: &'static str, ok: bool, detail: impl FnOnce() -> String) {
        self.cases += 1;
        if !self.axioms.contains(&name) {
            self.axioms.push(name);
        }
        if !ok && self.failures.len() < 20 {
            self.failures.push(format!("{}: {}", name, detail()));
        }
    }
}
fn view(bs: &Bs) -> Vec<bool> {
    bs.iter().by_vals().collect()
}
fn le_val(b: &[bool]) -> u128 {
    b.iter().enumerate().map(|(i, &x)| (x as u128) << i).sum()
}
fn head(bs: &Bs) -> usize {
    bs.as_bitptr().raw_parts().1.into_inner() as usize
}
/// a parent vector with `off` junk bits in front of `bits` and some junk behind
fn with_head(bits: &[bool], off: usize, rng: &mut Rng) -> (Bv, usize) {
    let mut bv = Bv::new();
    for _ in 0..off {
        bv.push(rng.next() & 1 == 1);
    }
    for &b in bits {
        bv.push(b);
    }
    for _ in 0..(rng.below(5)) {
        bv.push(rng.next() & 1 == 1);
    }
    (bv, off)
}
struct Rec(Vec<(u8, Vec<u8>)>);
impl Hasher for Rec {
    fn finish(&self) -> u64 {
        0
    }
    fn write(&mut self, b: &[u8]) {
        self.0.push((0, b.to_vec()));
    }
    fn write_u8(&mut self, i: u8) {
        self.0.push((1, vec![i]));
    }
    fn write_usize(&mut self, i: usize) {
        self.0.push((2, i.to_le_bytes().to_vec()));
    }
}

pub fn run(seed: u64) -> Ax {
    let mut ax = Ax { cases: 0, axioms: vec![], failures: vec![] };
    let mut rng = Rng::new(seed);
    std::panic::set_hook(Box::new(|_| {}));
    let mut inputs: Vec<Vec<bool>> = vec![];
    for n in 0..=8usize {
        for v in 0..(1u32 << n) {
            if n <= 6 || v % 7 == 0 {
                inputs.push((0..n).map(|i| (v >> i) & 1 == 1).collect());
            }
        }
    }
    for &n in &[9usize, 13, 31, 63, 64, 65, 70, 127, 128, 129, 200] {
        inputs.push((0..n).map(|_| rng.next() & 1 == 1).collect());
    }
    for bits in &inputs {
        let n = bits.len();
        for &off in &[0usize, 1, 7, 31, 62, 63, 64, 65] {
            let (parent, o) = with_head(bits, off, &mut rng);
            let bs: &Bs = &parent[o..o + n];
            ax.chk("Bs::len / view", bs.len() == n && view(bs) == *bits, || format!("n={} off={}", n, off));
            ax.chk("Index<Range>: head = (head + start) % 64", n == 0 || head(bs) == off % 64, || format!("n={} off={} head={}", n, off, head(bs)));
            // sub-ranges
            for a in 0..=n.min(3) {
                for b in a..=n.min(a + 9) {
                    ax.chk("Index<Range>: sub-range of the view", view(&bs[a..b]) == bits[a..b], || format!("n={} {}..{}", n, a, b));
                    if a == 0 {
                        ax.chk("Index<RangeTo>", view(&bs[..b]) == bits[..b] && (b == 0 || head(&bs[..b]) == head(bs)), || format!("n={} ..{}", n, b));
                    }
                    if b == n {
                        ax.chk("Index<RangeFrom>", view(&bs[a..]) == bits[a..], || format!("n={} {}..", n, a));
                    }
                }
            }
            ax.chk("Index<Range>: refuses out of range", catch_unwind(AssertUnwindSafe(|| bs[0..n + 1].len())).is_err() && catch_unwind(AssertUnwindSafe(|| bs[n + 1..].len())).is_err(), || format!("n={}", n));
            // load_le
            if n >= 1 && n <= 8 {
                ax.chk("load_le::<u8> = le_val", bs.load_le::<u8>() as u128 == le_val(bits), || format!("{:?} off={}", bits, off));
            }
            if n >= 1 && n <= 64 {
                ax.chk("load_le::<usize> = le_val", bs.load_le::<usize>() as u128 == le_val(bits) && bs.load_le::<u64>() as u128 == le_val(bits), || format!("n={} off={}", n, off));
            }
            if n >= 1 && n <= 128 {
                ax.chk("load_le::<u128> = le_val", bs.load_le::<u128>() == le_val(bits), || format!("n={} off={}", n, off));
            }
            if n == 0 || n > 8 {
                ax.chk("load_le::<u8> refuses len 0 or > 8", catch_unwind(AssertUnwindSafe(|| bs.load_le::<u8>())).is_err(), || format!("n={}", n));
            }
            if n == 0 || n > 64 {
                ax.chk("load_le::<usize> refuses len 0 or > 64", catch_unwind(AssertUnwindSafe(|| bs.load_le::<usize>())).is_err(), || format!("n={}", n));
            }
            // equality / hash
            let (p2, o2) = with_head(bits, (off * 3 + 5) % 70, &mut rng);
            let bs2: &Bs = &p2[o2..o2 + n];
            ax.chk("==: equal views are equal at any alignment", bs == bs2, || format!("n={} off={}", n, off));
            if n > 0 {
                let mut other = bits.clone();
                other[n - 1] = !other[n - 1];
                let (p3, o3) = with_head(&other, off, &mut rng);
                ax.chk("==: differing views are unequal", bs != &p3[o3..o3 + n] && (n < 2 || bs != &bs[..n - 1]), || format!("n={}", n));
            }
            let mut h = Rec(vec![]);
            bs.hash(&mut h);
            ax.chk("Hash for BitSlice: one bool per bit, in order, nothing else", h.0.len() == n && h.0.iter().zip(bits).all(|((k, v), &b)| *k == 1 && v[0] == b as u8), || format!("n={} log={:?}", n, &h.0[..h.0.len().min(4)]));
            // copies
            let c1 = bs.to_bitvec();
            let c2 = Bv::from_bitslice(bs);
            let c3: Bv = bs.into();
            ax.chk("to_bitvec / from_bitslice / From<&Bs>: same view", view(&c1) == *bits && view(&c2) == *bits && view(&c3) == *bits, || format!("n={}", n));
            ax.chk("to_bitvec / from_bitslice / From<&Bs>: head of the source is kept", n == 0 || (head(&c1) == head(bs) && head(&c2) == head(bs) && head(&c3) == head(bs)), || format!("n={} off={} heads {} {} {}", n, off, head(&c1), head(&c2), head(&c3)));
            ax.chk("Clone for BitVec: same view and head", view(&c1.clone()) == *bits && (n == 0 || head(&c1.clone()) == head(&c1)), || format!("n={}", n));
            // force_align
            let mut fa = c1.clone();
            fa.force_align();
            ax.chk("force_align: same view, head 0", view(&fa) == *bits && (n == 0 || head(&fa) == 0), || format!("n={} off={} head {}", n, off, if n == 0 { 0 } else { head(&fa) }));
            // fresh vector + extend
            let mut f = Bv::with_capacity(n);
            f.extend_from_bitslice(bs);
            ax.chk("with_capacity + extend_from_bitslice: view = source, head 0", view(&f) == *bits && (n == 0 || head(&f) == 0), || format!("n={} off={}", n, off));
            let mut g = c1.clone();
            g.extend_from_bitslice(bs2);
            let mut want = bits.clone();
            want.extend(bits);
            ax.chk("extend_from_bitslice: concatenation, head kept", view(&g) == want && (n == 0 || head(&g) == head(&c1)), || format!("n={}", n));
            // as_raw_slice with head
            let raw = c1.as_raw_slice();
            let hd = if n == 0 { 0 } else { head(&c1) };
            ax.chk("as_raw_slice: logical bit k at physical bit head + k; ceil((head+len)/64) words", (n == 0 || raw.len() == (hd + n + 63) / 64) && (0..n).all(|k| ((raw[(hd + k) / 64] >> ((hd + k) % 64)) & 1 == 1) == bits[k]), || format!("n={} head={} words={}", n, hd, raw.len()));
            // truncate / clear / drain
            for t in [0usize, n / 2, n, n + 3] {
                let mut v = f.clone();
                v.truncate(t);
                ax.chk("truncate", view(&v) == bits[..t.min(n)], || format!("n={} t={}", n, t));
            }
            let mut v = f.clone();
            v.clear();
            ax.chk("clear", v.is_empty(), || String::new());
            for a in 0..=n.min(2) {
                for b in a..=n.min(a + 5) {
                    let mut v = f.clone();
                    v.drain(a..b);
                    let mut w = bits[..a].to_vec();
                    w.extend(&bits[b..]);
                    ax.chk("drain(a..b) as a statement removes the range and closes the gap", view(&v) == w, || format!("n={} {}..{}", n, a, b));
                }
            }
            ax.chk("drain refuses out of range", catch_unwind(AssertUnwindSafe(|| { let mut v = f.clone(); v.drain(0..n + 1); })).is_err(), || format!("n={}", n));
            // &= |= with rhs of several lengths
            for m in [0usize, n / 2, n, n + 2] {
                let rb: Vec<bool> = (0..m).map(|_| rng.next() & 1 == 1).collect();
                let (pr, or) = with_head(&rb, (off + 11) % 64, &mut rng);
                let rhs: &Bs = &pr[or..or + m];
                let mut x = f.clone();
                x &= rhs;
                let wa: Vec<bool> = (0..n).map(|i| if i < m { bits[i] && rb[i] } else { false }).collect();
                ax.chk("bv &= &bs: per-bit and on the common prefix, tail of self cleared, length of self", view(&x) == wa, || format!("n={} m={} got {:?} want {:?}", n, m, view(&x), wa));
                let mut y = f.clone();
                y |= rhs;
                let wo: Vec<bool> = (0..n).map(|i| if i < m { bits[i] || rb[i] } else { bits[i] }).collect();
                ax.chk("bv |= &bs: per-bit or on the common prefix, tail of self untouched, length of self", view(&y) == wo, || format!("n={} m={}", n, m));
                let rv = rhs.to_bitvec();
                ax.chk("BitVec & BitVec / BitVec | BitVec: op-assign on the left operand", view(&(f.clone() & rv.clone())) == wa && view(&(f.clone() | rv)) == wo, || format!("n={} m={}", n, m));
            }
            // reverse / rotate
            let mut r = f.clone();
            r.reverse();
            let mut wr = bits.clone();
            wr.reverse();
            ax.chk("reverse", view(&r) == wr, || format!("n={}", n));
            for by in [0usize, 1, n / 2, n] {
                if by <= n {
                    let mut a = f.clone();
                    a.rotate_left(by);
                    let mut w = bits[by..].to_vec();
                    w.extend(&bits[..by]);
                    ax.chk("rotate_left(by): view[by..] + view[..by]", view(&a) == w, || format!("n={} by={}", n, by));
                    let mut b = f.clone();
                    b.rotate_right(by);
                    let mut w2 = bits[n - by..].to_vec();
                    w2.extend(&bits[..n - by]);
                    ax.chk("rotate_right(by): view[len-by..] + view[..len-by]", view(&b) == w2, || format!("n={} by={}", n, by));
                }
            }
            if n > 0 {
                ax.chk("rotate refuses by > len", catch_unwind(AssertUnwindSafe(|| { let mut a = f.clone(); a.rotate_left(n + 1); })).is_err(), || format!("n={}", n));
            }
            // store on sub-slices (IndexMut): low bits of the value, rest untouched
            for w in 1..=8usize.min(n) {
                for val in [0usize, 1, 0x55, 0xAA, 0xFF, 0x1F3] {
                    let mut s = parent.clone();
                    s[o..o + w].store(val);
                    let mut wv = view(&parent);
                    for j in 0..w {
                        wv[o + j] = (val >> j) & 1 == 1;
                    }
                    ax.chk("IndexMut<Range> + store::<usize>: low len bits of the value, bit 0 first; other bits untouched", view(&s) == wv, || format!("w={} val={:#x} off={}", w, val, off));
                    let mut s8 = parent.clone();
                    s8[o..o + w].store(val as u8);
                    let mut wv8 = view(&parent);
                    for j in 0..w {
                        wv8[o + j] = ((val as u8) >> j) & 1 == 1;
                    }
                    ax.chk("store::<u8>", view(&s8) == wv8, || format!("w={} val={:#x}", w, val));
                }
            }
            // chunk iterators
            for w in 1..=8usize {
                let mut c = f.clone();
                let k = n / w;
                let mut seen = vec![];
                for ch in c.chunks_exact_mut(w) {
                    seen.push(ch.iter().by_vals().collect::<Vec<bool>>());
                    ch.reverse();
                }
                let want: Vec<Vec<bool>> = (0..k).map(|i| bits[i * w..(i + 1) * w].to_vec()).collect();
                let mut after = bits.clone();
                for i in 0..k {
                    after[i * w..(i + 1) * w].reverse();
                }
                ax.chk("chunks_exact_mut: len/w windows from the start, in order, disjoint; writes land in place; remainder untouched", seen == want && view(&c) == after, || format!("n={} w={}", n, w));
                let mut c2 = f.clone();
                let mut seen2 = vec![];
                for ch in c2.rchunks_exact_mut(w) {
                    seen2.push(ch.iter().by_vals().collect::<Vec<bool>>());
                    ch.reverse();
                }
                let want2: Vec<Vec<bool>> = (0..k).map(|i| bits[n - (i + 1) * w..n - i * w].to_vec()).collect();
                let mut after2 = bits.clone();
                for i in 0..k {
                    after2[n - (i + 1) * w..n - i * w].reverse();
                }
                ax.chk("rchunks_exact_mut: len/w windows counted from the END, last first; remainder at the front untouched", seen2 == want2 && view(&c2) == after2, || format!("n={} w={}", n, w));
                let mut c3 = f.clone();
                let mut cnt = 0;
                unsafe {
                    for ch in c3.chunks_exact_mut(w).remove_alias() {
                        cnt += 1;
                        let v = ch.load_le::<u8>();
                        ch.store(!v as usize);
                    }
                }
                let mut after3 = bits.clone();
                for j in 0..k * w {
                    after3[j] = !after3[j];
                }
                ax.chk("remove_alias: same windows, same order", cnt == k && view(&c3) == after3, || format!("n={} w={}", n, w));
            }
        }
    }
    // from_slice / BitArray / view_bits
    for _ in 0..200 {
        let words: Vec<usize> = (0..rng.below(4)).map(|_| rng.next() as usize).collect();
        let bv = Bv::from_slice(&words);
        ax.chk("from_slice: 64*n bits, word 0 bit 0 first, head 0", bv.len() == 64 * words.len() && (0..bv.len()).all(|k| bv[k] == ((words[k / 64] >> (k % 64)) & 1 == 1)) && (bv.is_empty() || head(&bv) == 0), || format!("{:x?}", words));
        let x = rng.next() as usize;
        let ba = BitArray::<[usize; 1], Lsb0>::new([x]);
        ax.chk("BitArray::new([x]).as_ref(): the 64 bits of x, bit 0 first", ba.as_bitslice().len() == 64 && (0..64).all(|k| ba[k] == ((x >> k) & 1 == 1)), || format!("{:#x}", x));
        let y = rng.next() as usize;
        let ba2 = BitArray::<[usize; 2], Lsb0>::new([x, y]);
        ax.chk("BitArray::new([x, y]): 128 bits, word 0 first", ba2.as_bitslice().len() == 128 && (0..64).all(|k| ba2[64 + k] == ((y >> k) & 1 == 1)), || format!("{:#x}", y));
        let b = (x & 0xff) as u8;
        ax.chk("u8::view_bits::<Lsb0>: 8 bits, bit 0 first", b.view_bits::<Lsb0>().len() == 8 && (0..8).all(|k| b.view_bits::<Lsb0>()[k] == ((b >> k) & 1 == 1)), || format!("{:#x}", b));
        ax.chk("usize::view_bits::<Lsb0>: 64 bits, bit 0 first", x.view_bits::<Lsb0>().len() == 64 && (0..64).all(|k| x.view_bits::<Lsb0>()[k] == ((x >> k) & 1 == 1)), || format!("{:#x}", x));
        let mut ba3 = BitArray::<[usize; 1], Lsb0>::new([x]);
        let n = rng.below(65);
        let by = if n == 0 { 0 } else { rng.below(n + 1) };
        let m: &mut BitSlice<usize, Lsb0> = ba3.as_mut();
        m[..n].rotate_left(by);
        let back: usize = m.load_le();
        let lo = if n == 64 { x } else { x & ((1usize << n) - 1) };
        let rot = if n == 0 || by == 0 || by == n { lo } else { ((lo >> by) | (lo << (n - by))) & if n == 64 { usize::MAX } else { (1usize << n) - 1 } };
        let want = if n == 64 { rot } else { (x & !((1usize << n) - 1)) | rot };
        ax.chk("as_mut + IndexMut<RangeTo> + rotate_left: rotation of the prefix, tail untouched", back == want, || format!("x={:#x} n={} by={} got {:#x} want {:#x}", x, n, by, back, want));
    }
    let _ = std::panic::take_hook();
    ax
}
