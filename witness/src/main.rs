//! Native companion of the verification units: runs against the real bio-seq crate built from
//! /repo's working tree.
//!   witness replay <law> <hexvec> <hexvec> ...   replay a Kani counterexample on the real code
//!   witness items                                 codec_items for all codecs (no inputs: complete)
//!   witness standin <Cxx> <quick|thorough> <seed> bounded stand-ins for glue code (labelled bounded)
#![allow(dead_code)]

#[path = "../../laws/laws.rs"]
pub mod laws;
mod axcheck;
mod rng;
mod standins;

use laws::Src;
use std::panic;

/// Inputs from recorded playback vectors (Kani's `concrete_vals` order = kani::any() call order)
pub struct ReplaySrc {
    vals: Vec<Vec<u8>>,
    pos: usize,
    pub failed: Vec<&'static str>,
    pub passed: usize,
    pub skipped: bool,
}

impl ReplaySrc {
    pub fn new(vals: Vec<Vec<u8>>) -> Self {
        ReplaySrc { vals, pos: 0, failed: vec![], passed: 0, skipped: false }
    }
    fn next(&mut self, n: usize) -> Vec<u8> {
        let v = self.vals.get(self.pos).cloned().unwrap_or_else(|| vec![0; n]);
        self.pos += 1;
        let mut v = v;
        v.resize(n, 0);
        v
    }
}

impl Src for ReplaySrc {
    fn u8(&mut self) -> u8 {
        self.next(1)[0]
    }
    fn usize(&mut self) -> usize {
        let v = self.next(8);
        usize::from_le_bytes(v.try_into().unwrap())
    }
    fn u64(&mut self) -> u64 {
        let v = self.next(8);
        u64::from_le_bytes(v.try_into().unwrap())
    }
    fn u128(&mut self) -> u128 {
        let v = self.next(16);
        u128::from_le_bytes(v.try_into().unwrap())
    }
    fn assume(&mut self, c: bool) -> bool {
        if !c {
            self.skipped = true;
        }
        c
    }
    fn check(&mut self, label: &'static str, c: bool) {
        if c {
            self.passed += 1;
        } else {
            self.failed.push(label);
        }
    }
    fn cover(&mut self, _label: &'static str, _c: bool) {}
}

fn parse_hex(s: &str) -> Vec<u8> {
    (0..s.len() / 2).map(|i| u8::from_str_radix(&s[2 * i..2 * i + 2], 16).unwrap()).collect()
}

pub fn json_str(s: &str) -> String {
    let mut o = String::from("\"");
    for c in s.chars() {
        match c {
            '"' => o.push_str("\\\""),
            '\\' => o.push_str("\\\\"),
            '\n' => o.push_str("\\n"),
            c if (c as u32) < 0x20 => o.push_str(&format!("\\u{:04x}", c as u32)),
            c => o.push(c),
        }
    }
    o.push('"');
    o
}

fn main() {
    let args: Vec<String> = std::env::args().collect();
    if args.len() < 2 {
        eprintln!("usage: witness replay|items|standin ...");
        std::process::exit(2);
    }
    match args[1].as_str() {
        "replay" => {
            let law = args[2].clone();
            let vals: Vec<Vec<u8>> = args[3..].iter().map(|s| parse_hex(s)).collect();
            panic::set_hook(Box::new(|_| {}));
            let r = panic::catch_unwind(move || {
                let mut src = ReplaySrc::new(vals);
                let known = laws::dispatch(&law, &mut src);
                (known, src.failed, src.passed, src.skipped)
            });
            match r {
                Ok((known, failed, passed, skipped)) => {
                    let f: Vec<String> = failed.iter().map(|l| json_str(l)).collect();
                    println!("{{\"known_law\":{},\"panicked\":null,\"failed\":[{}],\"passed\":{},\"skipped\":{}}}", known, f.join(","), passed, skipped);
                }
                Err(e) => {
                    let msg = e.downcast_ref::<String>().cloned().or_else(|| e.downcast_ref::<&str>().map(|s| s.to_string())).unwrap_or_default();
                    println!("{{\"known_law\":true,\"panicked\":{},\"failed\":[],\"passed\":0,\"skipped\":false}}", json_str(&msg));
                }
            }
        }
        "items" => {
            let mut src = ReplaySrc::new(vec![]);
            laws::all_items(&mut src);
            let f: Vec<String> = src.failed.iter().map(|l| json_str(l)).collect();
            println!("{{\"failed\":[{}],\"passed\":{}}}", f.join(","), src.passed);
        }
        "axcheck" => {
            let seed: u64 = args.get(2).and_then(|s| s.parse().ok()).unwrap_or(0);
            let ax = axcheck::run(seed);
            let f: Vec<String> = ax.failures.iter().map(|x| json_str(x)).collect();
            let a: Vec<String> = ax.axioms.iter().map(|x| json_str(x)).collect();
            println!("{{\"cases\":{},\"axioms\":[{}],\"failures\":[{}]}}", ax.cases, a.join(","), f.join(","));
        }
        "standin" => {
            let prop = args[2].clone();
            let tier = args.get(3).cloned().unwrap_or_else(|| "quick".into());
            let seed: u64 = args.get(4).and_then(|s| s.parse().ok()).unwrap_or(0);
            // expected panics (refusals) are caught inside the stand-ins; keep stderr quiet but remember
            // the last message in case a panic escapes (= the real crate panicked on a valid input)
            static LAST: std::sync::Mutex<String> = std::sync::Mutex::new(String::new());
            panic::set_hook(Box::new(|info| {
                if let Ok(mut l) = LAST.lock() {
                    *l = format!("{}", info);
                }
            }));
            let p2 = prop.clone();
            match panic::catch_unwind(move || standins::run(&p2, &tier, seed)) {
                Ok(rep) => println!("{}", rep.to_json()),
                Err(_) => {
                    let msg = LAST.lock().map(|l| l.clone()).unwrap_or_default();
                    let mut rep = standins::Report::new(&prop, "stand-in aborted by an unexpected panic");
                    rep.cases = 1;
                    rep.distinct = 1;
                    rep.failures.push(("the real crate panicked on an input the property covers".to_string(), msg));
                    println!("{}", rep.to_json());
                }
            }
        }
        _ => {
            eprintln!("unknown subcommand");
            std::process::exit(2);
        }
    }
}
