/// splitmix64 / xorshift: deterministic, seeded from VERIF_SEED
pub struct Rng(pub u64);
impl Rng {
    pub fn new(seed: u64) -> Self {
        Rng(seed ^ 0x9E37_79B9_7F4A_7C15)
    }
    pub fn next(&mut self) -> u64 {
        self.0 = self.0.wrapping_add(0x9E37_79B9_7F4A_7C15);
        let mut z = self.0;
        z = (z ^ (z >> 30)).wrapping_mul(0xBF58_476D_1CE4_E5B9);
        z = (z ^ (z >> 27)).wrapping_mul(0x94D0_49BB_1331_11EB);
        z ^ (z >> 31)
    }
    pub fn below(&mut self, n: usize) -> usize {
        (self.next() % n as u64) as usize
    }
}
