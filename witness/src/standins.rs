//! Bounded stand-ins for code the deductive verifier cannot reach (iterator-adapter glue, the
//! in-place loops under plan B) and witness search for failed Verus obligations.
//! Everything here is labelled `bounded` in the evidence and never counted as an obligation.
//! The reference model is a plain `Vec<usize>` of rows of the documented alphabet (laws::Oracle).
use crate::json_str;
use crate::laws::{comp_letter, ncbi_amino, Oracle};
use crate::rng::Rng;
use bio_seq::codec::{degenerate, masked, text};
use bio_seq::prelude::*;
use std::collections::HashMap;
use std::hash::{Hash, Hasher};
use std::panic::{catch_unwind, AssertUnwindSafe};

pub struct Report {
    pub property: String,
    pub bound: String,
    pub cases: usize,
    pub distinct: usize,
    pub failures: Vec<(String, String)>,
    pub samples: Vec<String>,
    pub functions: Vec<&'static str>,
}

fn trace_path() -> Option<&'static str> {
    static P: std::sync::OnceLock<Option<String>> = std::sync::OnceLock::new();
    P.get_or_init(|| std::env::var("VERIF_TRACE").ok()).as_deref()
}
impl Report {
    pub fn new(p: &str, bound: &str) -> Self {
        Report { property: p.into(), bound: bound.into(), cases: 0, distinct: 0, failures: vec![], samples: vec![], functions: vec![] }
    }
    pub fn case(&mut self, sample: impl FnOnce() -> String) {
        self.cases += 1;
        self.distinct += 1;
        // VERIF_TRACE=<file>: the description of the case about to run is written (and flushed) first, so that after a
        // crash of the process (a signal raised inside the library's unsafe code) the driver can name the input
        if let Some(path) = trace_path() {
            let d = sample();
            let _ = std::fs::write(path, format!("{} case #{}: {}", self.property, self.cases, d));
            if self.samples.len() < 6 && (self.cases % 97 == 1) {
                self.samples.push(d);
            }
            return;
        }
        if self.samples.len() < 6 && (self.cases % 97 == 1) {
            self.samples.push(sample());
        }
    }
    pub fn expect(&mut self, ok: bool, what: &str, input: impl FnOnce() -> String) {
        if !ok && self.failures.len() < 25 && !self.failures.iter().any(|(w, _)| w == what) {
            self.failures.push((what.to_string(), input()));
        }
    }
    pub fn to_json(&self) -> String {
        let f: Vec<String> = self.failures.iter().map(|(w, i)| format!("{{\"what\":{},\"input\":{}}}", json_str(w), json_str(i))).collect();
        let s: Vec<String> = self.samples.iter().map(|x| json_str(x)).collect();
        let fns: Vec<String> = self.functions.iter().map(|x| json_str(x)).collect();
        format!(
            "{{\"property\":{},\"bound\":{},\"cases\":{},\"distinct\":{},\"failures\":[{}],\"samples\":[{}],\"functions\":[{}]}}",
            json_str(&self.property), json_str(&self.bound), self.cases, self.distinct, f.join(","), s.join(","), fns.join(",")
        )
    }
}

// ------------------------------------------------------------------------------------------ model helpers
/// sequence built with push (verified by Verus) from table rows
fn build<C: Oracle>(rows: &[usize]) -> Seq<C> {
    let mut s = Seq::<C>::new();
    for &r in rows {
        s.push(C::entry(r).sym);
    }
    s
}
/// Owned sequences with the content `rows` but different histories: stale bits beyond the end of the live bits, spare
/// capacity, rebuilt from a dirty image, assembled by edits.  Every property about owned sequences must hold for all of them.
fn history_variants<C: Oracle>(rows: &[usize]) -> Vec<(&'static str, Seq<C>)> {
    let n = rows.len();
    let mut v: Vec<(&'static str, Seq<C>)> = vec![("pushed", build::<C>(rows))];
    let mut longer = rows.to_vec();
    longer.extend((0..5).map(|_| C::len() - 1));
    let mut t = build::<C>(&longer);
    t.truncate(n);
    v.push(("truncated", t));
    let mut r = build::<C>(&longer);
    r.remove(n..);
    v.push(("tail removed", r));
    let mut r2 = { let mut l = vec![C::len() - 1; 3]; l.extend(rows); build::<C>(&l) };
    r2.remove(..3);
    v.push(("head removed", r2));
    let img: Vec<usize> = { let mut w = build::<C>(&longer).into_raw().to_vec(); w.push(usize::MAX); w };
    if let Some(fr) = Seq::<C>::from_raw(n, &img) {
        v.push(("from_raw with a dirty tail", fr));
    }
    let mut c = build::<C>(&longer);
    c.clear();
    c.extend(rows.iter().map(|&x| C::entry(x).sym));
    v.push(("cleared and extended", c));
    if n >= 2 {
        let mut p = build::<C>(&rows[n / 2..]);
        p.prepend(&build::<C>(&rows[..n / 2]));
        v.push(("prepended", p));
    }
    v
}
fn text_of<C: Oracle>(rows: &[usize]) -> Vec<u8> {
    rows.iter().map(|&r| C::entry(r).ch).collect()
}
fn rows_of<C: Oracle>(s: &SeqSlice<C>) -> Vec<usize> {
    (0..s.len()).map(|i| {
        let x = s.nth(i);
        (0..C::len()).find(|&r| C::entry(r).sym == x).unwrap_or(usize::MAX)
    }).collect()
}
/// Content of length n.  Three calls in four: independent uniform symbols.  One call in four: STRUCTURED content - long runs of
/// one symbol (the all-zero code, the all-ones / last symbol, or a random one) with run lengths around the word size - because
/// uniformly random content never contains a whole storage word of identical symbols (e.g. poly-A = an all-zero word), and
/// word-level fast paths key on exactly that.
fn rand_rows<C: Oracle>(rng: &mut Rng, n: usize) -> Vec<usize> {
    if n < 4 || rng.below(4) != 0 {
        return (0..n).map(|_| rng.below(C::len())).collect();
    }
    let zero = (0..C::len()).find(|&r| C::entry(r).code == 0).unwrap_or(0);
    let ones = (0..C::len()).max_by_key(|&r| C::entry(r).code).unwrap_or(0);
    let per_word = (64 / C::BITS as usize).max(1);
    let mut v = Vec::with_capacity(n);
    while v.len() < n {
        let sym = match rng.below(4) { 0 => zero, 1 => ones, 2 => zero, _ => rng.below(C::len()) };
        let run = match rng.below(7) { 0 => 1, 1 => 2, 2 => per_word - 1, 3 => per_word, 4 => per_word + 1, 5 => 2 * per_word + 3, _ => 4 * per_word };
        for _ in 0..run.max(1) {
            if v.len() < n { v.push(sym); }
        }
    }
    v
}
/// a slice with the given content starting at symbol offset `off` inside a longer parent
fn with_offset<C: Oracle, R>(rows: &[usize], off: usize, rng: &mut Rng, f: impl FnOnce(&SeqSlice<C>) -> R) -> R {
    let mut all = rand_rows::<C>(rng, off);
    all.extend_from_slice(rows);
    let tail = rng.below(3);
    all.extend(rand_rows::<C>(rng, tail));
    let parent = build::<C>(&all);
    f(&parent[off..off + rows.len()])
}
fn caught<R>(f: impl FnOnce() -> R) -> Option<R> {
    catch_unwind(AssertUnwindSafe(f)).ok()
}
/// all strings over `alpha` of length <= n
fn all_strings(alpha: &[u8], n: usize) -> Vec<Vec<u8>> {
    let mut out = vec![vec![]];
    let mut cur = vec![vec![]];
    for _ in 0..n {
        let mut next = vec![];
        for s in &cur {
            for &c in alpha {
                let mut t: Vec<u8> = s.clone();
                t.push(c);
                next.push(t);
            }
        }
        out.extend(next.iter().cloned());
        cur = next;
    }
    out
}
fn show(b: &[u8]) -> String {
    format!("{:?}", String::from_utf8_lossy(b)) + &format!(" bytes={:?}", b)
}

macro_rules! for_codecs {
    ($f:ident, $($arg:expr),*) => {{
        $f::<Dna>($($arg),*);
        $f::<Iupac>($($arg),*);
        $f::<Amino>($($arg),*);
        $f::<text::Dna>($($arg),*);
        $f::<masked::dna::Dna>($($arg),*);
        $f::<masked::iupac::Iupac>($($arg),*);
        $f::<degenerate::dna::Dna>($($arg),*);
    }};
}

// ------------------------------------------------------------------------------------------ C01
fn expected_parse<C: Oracle>(bytes: &[u8]) -> Result<Vec<usize>, u8> {
    let mut rows = vec![];
    for &b in bytes {
        match C::expect_ascii(b) {
            Some(r) => rows.push(r),
            None => return Err(b),
        }
    }
    Ok(rows)
}
fn check_parse<C: Oracle>(rep: &mut Report, got: Result<Seq<C>, ParseBioError>, bytes: &[u8], entry: &str) {
    let exp = expected_parse::<C>(bytes);
    match (exp, got) {
        (Ok(rows), Ok(s)) => {
            rep.expect(s.len() == rows.len() && rows_of::<C>(&s) == rows, "C01 parse yields one symbol per byte, in order", || format!("{} {} via {}", C::NAME, show(bytes), entry));
            // display -> parse -> display
            let d = s.to_string();
            let canon: Vec<u8> = rows.iter().map(|&r| C::entry(r).ch).collect();
            rep.expect(d.as_bytes() == &canon[..], "C01 display shows the symbols' characters", || format!("{} {} via {} displayed {:?}", C::NAME, show(bytes), entry, d));
            rep.expect(String::from(&*s) == d && String::from(s.clone()) == d && format!("{}", &*s) == d, "C01 String::from / Display agree", || format!("{} {}", C::NAME, show(bytes)));
            // Display through a format spec with width / precision / alignment: the symbols stay contiguous and in order - the
            // result is the plain text, or the plain text padded / truncated AS A WHOLE (both conventions are accepted; padding
            // or truncating each symbol separately is not the same symbols)
            if !d.is_empty() && d.len() <= 40 {
                let w = d.len() + 3;
                let whole = |t: &str| t == d || (t.len() == w && t.trim_matches(' ') == d) || (t.len() == w && t.trim_matches('*') == d);
                let f1 = format!("{:<w$}", &*s, w = w);
                let f2 = format!("{:>w$}", s, w = w);
                let f3 = format!("{:*^w$}", &*s, w = w);
                let f4 = format!("{:.1}", s);
                rep.expect(whole(&f1) && whole(&f2) && whole(&f3) && (f4 == d || f4 == d[..1]), "C01 display shows the symbols' characters", || format!("{} {} with a width / precision spec: {:?} {:?} {:?} {:?}", C::NAME, show(bytes), f1, f2, f3, f4));
            }
            match Seq::<C>::try_from(d.as_str()) {
                Ok(s2) => rep.expect(s2 == s && s2.to_string() == d, "C01 display -> parse -> display is the identity", || format!("{} {}", C::NAME, show(bytes))),
                Err(_) => rep.expect(false, "C01 displayed text parses back", || format!("{} {}", C::NAME, show(bytes))),
            }
        }
        (Err(b), Err(e)) => rep.expect(e == ParseBioError::UnrecognisedBase(b), "C01 parse error names the first bad byte", || format!("{} {} via {} got {:?}", C::NAME, show(bytes), entry, e)),
        (Ok(_), Err(e)) => rep.expect(false, "C01 valid text is accepted", || format!("{} {} via {} got {:?}", C::NAME, show(bytes), entry, e)),
        (Err(_), Ok(s)) => rep.expect(false, "C01 text with a bad byte is rejected", || format!("{} {} via {} got {}", C::NAME, show(bytes), entry, s)),
    }
}
fn c01_codec<C: Oracle>(rep: &mut Report, thorough: bool, rng: &mut Rng) {
    // alphabet: up to 3 valid characters (first, last, middle) + invalid incl. non-ASCII
    let valid: Vec<u8> = (0..=255u8).filter(|&b| C::expect_ascii(b).is_some()).collect();
    let invalid: Vec<u8> = [b'x', b'\n', 0x80, 0xff, b'J', 0].iter().copied().filter(|&b| C::expect_ascii(b).is_none()).take(3).collect();
    let mut alpha = vec![valid[0], valid[valid.len() - 1], valid[valid.len() / 2]];
    alpha.dedup();
    alpha.extend(&invalid);
    let mut inputs = all_strings(&alpha, if thorough { 4 } else { 3 });
    for &n in &[31usize, 32, 33, 63, 64, 65, 127, 129, 255, 256, 257, 1023, 1024, 1025, 2049, 4097, 10_001] {
        let mut v: Vec<u8> = (0..n).map(|_| valid[rng.below(valid.len())]).collect();
        inputs.push(v.clone());
        let k = rng.below(n);
        v[k] = invalid[rng.below(invalid.len())];
        let k2 = rng.below(n);
        let mut v2 = v.clone();
        v2[k2] = invalid[0];
        inputs.push(v);
        inputs.push(v2);
    }
    // multi-byte UTF-8: characters whose code point's LOW byte is a symbol character (U+0100 + c), and 'é'
    for &c in valid.iter().take(4) {
        for pos in 0..3usize {
            let ch = char::from_u32(0x100 + c as u32).unwrap();
            let mut st: String = (0..pos).map(|_| valid[0] as char).collect();
            st.push(ch);
            st.push(valid[valid.len() - 1] as char);
            inputs.push(st.into_bytes());
        }
    }
    for b in 0..=255u8 {
        inputs.push(vec![b]);
        inputs.push(vec![valid[0], b]);
        inputs.push(vec![b, valid[valid.len() - 1]]);
    }
    for pre in [vec![], vec![valid[0]], vec![valid[0], valid[valid.len() - 1]]] {
        for bad in [b'x', b' ', b'\n', b'1', b'J', b'a'] {
            if C::expect_ascii(bad).is_some() { continue; }
            let mut v = pre.clone();
            v.push(bad);
            v.push(valid[0]);
            v.extend("\u{e9}".as_bytes());
            v.push(valid[0]);
            inputs.push(v.clone());
            v.extend("\u{1F9EC}x".as_bytes());
            inputs.push(v);
        }
    }
    inputs.push("é".as_bytes().to_vec());
    inputs.push(format!("{}é{}", valid[0] as char, valid[0] as char).into_bytes());
    inputs.push("\u{1F9EC}".as_bytes().to_vec());
    for bytes in &inputs {
        rep.case(|| format!("{} {}", C::NAME, show(bytes)));
        check_parse::<C>(rep, Seq::<C>::try_from(&bytes[..]), bytes, "TryFrom<&[u8]>");
        check_parse::<C>(rep, Seq::<C>::try_from(bytes.clone()), bytes, "TryFrom<Vec<u8>>");
        if let Ok(st) = std::str::from_utf8(bytes) {
            check_parse::<C>(rep, Seq::<C>::try_from(st), bytes, "TryFrom<&str>");
            check_parse::<C>(rep, Seq::<C>::try_from(st.to_string()), bytes, "TryFrom<String>");
            check_parse::<C>(rep, Seq::<C>::try_from(&st.to_string()), bytes, "TryFrom<&String>");
            check_parse::<C>(rep, Seq::<C>::from_str(st), bytes, "FromStr");
            check_parse::<C>(rep, st.parse::<Seq<C>>(), bytes, "str::parse");
        }
        if let Ok(rows) = expected_parse::<C>(bytes) {
            if bytes.len() > 4 {
                let canon: Vec<u8> = rows.iter().map(|&r| C::entry(r).ch).collect();
                for (how, h) in history_variants::<C>(&rows) {
                    rep.expect(h.to_string().as_bytes() == &canon[..] && String::from(&h).as_bytes() == &canon[..] && Seq::<C>::try_from(h.to_string().as_str()).map(|s| s == h) == Ok(true),
                        "C01 display -> parse -> display is the identity whatever the sequence's history", || format!("{} {} history={}", C::NAME, show(bytes), how));
                }
            }
            let syms: Vec<C> = rows.iter().map(|&r| C::entry(r).sym).collect();
            let a: Seq<C> = syms.iter().copied().collect();
            let mut b = Seq::<C>::new();
            b.extend(syms.iter().copied());
            let c: Seq<C> = Seq::from(&syms);
            rep.expect(rows_of::<C>(&a) == rows && rows_of::<C>(&b) == rows && rows_of::<C>(&c) == rows, "C01 FromIterator / extend / From<&Vec> build by repeated push", || format!("{} {}", C::NAME, show(bytes)));
        }
    }
}
fn c01(tier: &str, seed: u64) -> Report {
    let mut rep = Report::new("C01", "all byte strings of length <= 3 (thorough: 4) over {3 valid, 3 invalid incl. non-ASCII} + random strings of length 31,32,33,63,64,65,127,129 (valid / one bad byte / two bad bytes), 7 codecs, every parsing entry point");
    rep.functions = vec!["TryFrom<Vec<u8>>::try_from", "TryFrom<&[u8]|&str|String|&String>", "FromStr", "FromIterator<A>", "Seq::extend", "From<&Vec<A>>", "String::from(&SeqSlice)", "Display for SeqSlice", "From<Seq> for String"];
    let mut rng = Rng::new(seed);
    let th = tier == "thorough";
    for_codecs!(c01_codec, &mut rep, th, &mut rng);
    rep
}

// ------------------------------------------------------------------------------------------ C02
#[derive(Default)]
pub struct RecHasher(pub Vec<u8>);
impl Hasher for RecHasher {
    fn finish(&self) -> u64 {
        0
    }
    fn write(&mut self, bytes: &[u8]) {
        self.0.push(0xAA);
        self.0.extend_from_slice(bytes);
    }
}
fn rec<T: Hash + ?Sized>(t: &T) -> Vec<u8> {
    let mut h = RecHasher::default();
    t.hash(&mut h);
    h.0
}
fn c02_kmer<C: Oracle, const K: usize>(rep: &mut Report, rng: &mut Rng) {
    for off in [0usize, 1, 3, 7] {
        let rows = rand_rows::<C>(rng, K);
        with_offset::<C, _>(&rows, off, &mut Rng::new(rng.next()), |sl| {
            rep.case(|| format!("{} K={} off={} {}", C::NAME, K, off, sl));
            let k: Kmer<C, K> = Kmer::try_from(sl).unwrap();
            let owned: Seq<C> = sl.to_owned();
            rep.expect(rec(&k) == rec(sl), "C02 a k-mer feeds the hasher the same data as the slice it was copied from", || format!("{} K={} off={} {}", C::NAME, K, off, sl));
            rep.expect(rec(&owned) == rec(sl), "C02 an owned sequence feeds the hasher the same data as a slice with the same content", || format!("{} off={} {}", C::NAME, off, sl));
            rep.expect(k == *sl && k == sl && k == owned, "C02 a k-mer equals the sequences with the same symbols", || format!("{} K={} {}", C::NAME, K, sl));
            let txt = sl.to_string();
            rep.expect(k == txt.as_str() && *sl == txt.as_str(), "C02 a sequence equals its own displayed text", || format!("{} {}", C::NAME, txt));
            // text that differs from the displayed text only by letter case is ANOTHER text (for the masked codecs: another sequence)
            let (up, low) = (txt.to_ascii_uppercase(), txt.to_ascii_lowercase());
            for other in [&up, &low] {
                if *other != txt {
                    rep.expect(!(k == other.as_str()) && !(*sl == other.as_str()), "C02 a sequence equals no other text (letter case matters)", || format!("{} {} vs {:?}", C::NAME, txt, other));
                }
            }
            // differing in one symbol
            if C::len() > 1 {
                let mut r2 = rows.clone();
                let p = K - 1;
                r2[p] = (r2[p] + 1) % C::len();
                let other = build::<C>(&r2);
                let otxt = other.to_string();
                if otxt != txt {
                    rep.expect(!(k == other) && !(k == otxt.as_str()) && !(*sl == otxt.as_str()) && !(*sl == *other), "C02 sequences differing in one symbol are unequal (also to displayed text)", || format!("{} {} vs {}", C::NAME, txt, otxt));
                }
            }
            // map lookup through Borrow
            let mut m: HashMap<Seq<C>, usize> = HashMap::new();
            m.insert(owned.clone(), 7);
            rep.expect(m.get(sl) == Some(&7), "C02 an owned key is found by a borrowed slice with the same content", || format!("{} off={} {}", C::NAME, off, sl));
            // the k-mer against OWNED sequences of the same content but another history (stale bits beyond the end of the
            // backing word, spare capacity): equality and hashing depend on content only
            let mut longer = rows.clone();
            longer.extend((0..5).map(|_| C::len() - 1));
            let mut t = build::<C>(&longer);
            t.truncate(K);
            let mut r = build::<C>(&longer);
            r.remove(K..);
            let mut r2 = { let mut l = vec![C::len() - 1; 3]; l.extend(&rows); build::<C>(&l) };
            r2.remove(..3);
            let img: Vec<usize> = { let mut v = build::<C>(&longer).into_raw().to_vec(); v.push(usize::MAX); v };
            let mut hist: Vec<(&str, Seq<C>)> = vec![("truncate", t), ("remove tail", r), ("remove head", r2)];
            if let Some(fr) = Seq::<C>::from_raw(K, &img) { hist.push(("from_raw with dirty tail", fr)); }
            for (how, v) in &hist {
                rep.expect(k == *v && k == v[..] && k == &v[..] && rec(&k) == rec(v), "C02 a k-mer equals (and hashes like) an owned sequence with the same symbols whatever that sequence's history", || format!("{} K={} history={} {} vs {}", C::NAME, K, how, k, v));
            }
        });
    }
}
fn c02_alias<C: Oracle>(rep: &mut Report, rng: &mut Rng) {
    // both operands are windows of the SAME parent (same allocation, possibly the same storage word, possibly overlapping):
    // equality and hashing still depend on content only
    let n = 3 * (64 / C::BITS as usize) + 5;
    let mut rows = rand_rows::<C>(rng, n);
    // plant repeats so that equal windows exist at different positions
    for i in 0..n / 2 { if i % 3 != 0 { rows[n / 2 + i] = rows[i]; } }
    let parent = build::<C>(&rows);
    for w in [0usize, 1, 2, 3, 5] {
        for a in 0..n - w {
            for b in [a, a + 1, a + 2, a + n / 2, a + 64 / C::BITS as usize, n - w] {
                let b = b.min(n - w);
                let (x, y) = (&parent[a..a + w], &parent[b..b + w]);
                let same = rows[a..a + w] == rows[b..b + w];
                rep.case(|| format!("{} windows [{}..{}] vs [{}..{}] of one parent", C::NAME, a, a + w, b, b + w));
                let ok = (*x == *y) == same && (*y == *x) == same && (x == y) == same && (*x != *y) == !same && (x.to_owned() == *y) == same && (*x == y.to_owned()) == same
                    && (rec(x) == rec(y)) == same || (!same && rec(x) == rec(y) && w == 0);
                rep.expect(ok, "C02 two windows of the same parent compare equal exactly when their symbols are equal (and then hash alike)", || format!("{} {}[{}..{}]={} vs [{}..{}]={}", C::NAME, parent, a, a + w, x, b, b + w, y));
            }
        }
    }
    let whole = &parent[..];
    rep.expect(*whole == *whole && parent == parent && *whole == parent && rec(whole) == rec(&parent), "C02 a sequence equals itself", || format!("{}", C::NAME));
}
fn c02_text<C: Oracle>(rep: &mut Report, rng: &mut Rng) {
    // SeqSlice == &str glue: lengths 0..5, prefixes/suffixes, invalid characters
    for n in 0..5usize {
        for _ in 0..6 {
            let rows = rand_rows::<C>(rng, n);
            let off = rng.below(9);
            with_offset::<C, _>(&rows, off, &mut Rng::new(rng.next()), |sl| {
                rep.case(|| format!("{} {}", C::NAME, sl));
                let t = String::from_utf8(text_of::<C>(&rows)).unwrap();
                // canonical display of the rows
                let disp: String = rows.iter().map(|&r| C::entry(C::expect_ascii(C::entry(r).ch).unwrap()).ch as char).collect();
                rep.expect(*sl == disp.as_str(), "C02 slice == its displayed text", || format!("{} {} vs {:?}", C::NAME, sl, disp));
                let longer = format!("{}{}", t, C::entry(0).ch as char);
                rep.expect(!(*sl == longer.as_str()), "C02 slice != longer text with the same prefix", || format!("{} {}", C::NAME, sl));
                if n > 0 {
                    rep.expect(!(*sl == &t[..n - 1]), "C02 slice != its proper prefix as text", || format!("{} {}", C::NAME, sl));
                    let bad = format!("{}{}", &t[..n - 1], '\u{7f}');
                    rep.expect(!(*sl == bad.as_str()), "C02 slice != text with an invalid character", || format!("{} {}", C::NAME, sl));
                }
            });
        }
    }
}
fn c02_owned<C: Oracle>(rep: &mut Report, rng: &mut Rng) {
    // owned sequences with the same content but different histories (stale bits beyond the end,
    // spare capacity, copied from an offset) must be equal in every pairing and hash alike
    for n in [0usize, 1, 3, 4, 9, 31, 33, 130, 1025] {
        let rows = rand_rows::<C>(rng, n);
        let fresh = build::<C>(&rows);
        let mut variants: Vec<(&str, Seq<C>)> = vec![];
        let mut longer = rows.clone();
        longer.extend((0..5).map(|_| C::len() - 1));
        let mut t = build::<C>(&longer);
        t.truncate(n);
        variants.push(("truncate", t));
        let mut r = build::<C>(&longer);
        r.remove(n..);
        variants.push(("remove tail", r));
        let mut r2 = { let mut l = vec![C::len() - 1; 3]; l.extend(&rows); build::<C>(&l) };
        r2.remove(..3);
        variants.push(("remove head", r2));
        let img: Vec<usize> = { let mut v = build::<C>(&longer).into_raw().to_vec(); v.push(usize::MAX); v };
        if let Some(fr) = Seq::<C>::from_raw(n, &img) {
            variants.push(("from_raw with dirty tail", fr));
        }
        with_offset::<C, _>(&rows, 3, &mut Rng::new(rng.next()), |sl| variants.push(("to_owned of offset slice", sl.to_owned())));
        let mut c = build::<C>(&longer);
        c.clear();
        c.extend(rows.iter().map(|&x| C::entry(x).sym));
        variants.push(("clear + extend", c));
        for (how, v) in &variants {
            rep.case(|| format!("{} n={} {}", C::NAME, n, how));
            let ne_ok = !(*v != fresh) && !(fresh != *v) && !(&fresh != *v) && !(*v != &fresh) && !(v != &&fresh[..]) && !(fresh[..] != *v) && !(&fresh[..] != *v) && !(*v != fresh[..]);
            rep.expect(ne_ok, "C02 != is the negation of == in every pairing", || format!("{} n={} history={}", C::NAME, n, how));
            let ok = *v == fresh && fresh == *v && &fresh == *v && *v == &fresh && v == &&fresh[..] && fresh[..] == *v && &fresh[..] == *v && *v == fresh[..];
            rep.expect(ok, "C02 owned sequences with the same content are equal whatever their history, in every pairing and direction", || format!("{} n={} history={} {} vs {}", C::NAME, n, how, v, fresh));
            rep.expect(rec(v) == rec(&fresh) && rec(v) == rec(&fresh[..]), "C02 equal sequences feed identical data to the hasher whatever their history", || format!("{} n={} history={}", C::NAME, n, how));
            let mut m: HashMap<Seq<C>, usize> = HashMap::new();
            m.insert(v.clone(), 1);
            rep.expect(m.get(&fresh) == Some(&1) && m.get(&fresh[..]) == Some(&1), "C02 a shortened owned key is found by a fresh owned or borrowed sequence with the same content", || format!("{} n={} history={}", C::NAME, n, how));
            if n > 0 && C::len() > 1 {
                let mut other = rows.clone();
                other[n - 1] = (other[n - 1] + 1) % C::len();
                let o = build::<C>(&other);
                if o.to_string() != fresh.to_string() {
                    rep.expect(*v != o && o != *v && !(*v == o) && !(o == *v) && v[..] != o[..] && !(v[..] == o[..]) && *v != o[..] && !(*v == &o[..]), "C02 owned sequences differing in the last symbol are unequal", || format!("{} {} vs {}", C::NAME, v, o));
                }
            }
        }
    }
}
fn c02(_tier: &str, seed: u64) -> Report {
    let mut rep = Report::new("C02", "k-mers K in {1,2,5,8,16,31,32} (Dna), {1,3,16} (Iupac), {1,4,10} (Amino), {1,8} (text) at symbol offsets 0,1,3,7; text comparison for lengths 0..4 at random offsets; recording hasher");
    rep.functions = vec!["PartialEq<&str> for SeqSlice (zip loop)", "PartialEq<&str> for Kmer (to_string)", "HashMap<Seq,_>::get(&SeqSlice) via Borrow", "Hash for Kmer/Seq/SeqSlice (cross-check of the Verus contract with a recording hasher)"];
    let mut rng = Rng::new(seed);
    c02_kmer::<Dna, 1>(&mut rep, &mut rng);
    c02_kmer::<Dna, 2>(&mut rep, &mut rng);
    c02_kmer::<Dna, 5>(&mut rep, &mut rng);
    c02_kmer::<Dna, 8>(&mut rep, &mut rng);
    c02_kmer::<Dna, 16>(&mut rep, &mut rng);
    c02_kmer::<Dna, 31>(&mut rep, &mut rng);
    c02_kmer::<Dna, 32>(&mut rep, &mut rng);
    c02_kmer::<Iupac, 1>(&mut rep, &mut rng);
    c02_kmer::<Iupac, 3>(&mut rep, &mut rng);
    c02_kmer::<Iupac, 16>(&mut rep, &mut rng);
    c02_kmer::<Amino, 1>(&mut rep, &mut rng);
    c02_kmer::<Amino, 4>(&mut rep, &mut rng);
    c02_kmer::<Amino, 10>(&mut rep, &mut rng);
    c02_kmer::<text::Dna, 1>(&mut rep, &mut rng);
    c02_kmer::<text::Dna, 8>(&mut rep, &mut rng);
    c02_kmer::<masked::dna::Dna, 4>(&mut rep, &mut rng);
    c02_kmer::<masked::dna::Dna, 16>(&mut rep, &mut rng);
    c02_kmer::<masked::iupac::Iupac, 5>(&mut rep, &mut rng);
    c02_kmer::<masked::iupac::Iupac, 12>(&mut rep, &mut rng);
    for_codecs!(c02_text, &mut rep, &mut rng);
    for_codecs!(c02_alias, &mut rep, &mut rng);
    for_codecs!(c02_owned, &mut rep, &mut rng);
    rep
}

// ------------------------------------------------------------------------------------------ C03
fn c03_codec<C: Oracle>(rep: &mut Report, rng: &mut Rng) {
    for n in [0usize, 1, 2, 5, 13, 33, 70, 1030] {
        let rows = rand_rows::<C>(rng, n);
        let off = rng.below(17);
        with_offset::<C, _>(&rows, off, &mut Rng::new(rng.next()), |sl| {
            rep.expect(sl.len() == n && sl.is_empty() == (n == 0), "C03 len / is_empty", || format!("{} n={}", C::NAME, n));
            for a in 0..=n.min(6) {
                for b in a..=n {
                    rep.case(|| format!("{} n={} off={} {}..{}", C::NAME, n, off, a, b));
                    let want = &rows[a..b];
                    rep.expect(rows_of::<C>(&sl[a..b]) == want, "C03 a..b selects symbols a..b", || format!("{} n={} {}..{}", C::NAME, n, a, b));
                    if b > a {
                        rep.expect(rows_of::<C>(&sl[a..=b - 1]) == want, "C03 a..=b-1 selects symbols a..b", || format!("{} n={} {}..={}", C::NAME, n, a, b - 1));
                    }
                    if a == 0 {
                        rep.expect(rows_of::<C>(&sl[..b]) == want, "C03 ..b selects the first b symbols", || format!("{} n={} ..{}", C::NAME, n, b));
                        if b > 0 {
                            rep.expect(rows_of::<C>(&sl[..=b - 1]) == want, "C03 ..=b-1 selects the first b symbols", || format!("{} n={}", C::NAME, n));
                        }
                    }
                    if b == n {
                        rep.expect(rows_of::<C>(&sl[a..]) == want, "C03 a.. selects the tail", || format!("{} n={} {}..", C::NAME, n, a));
                    }
                    // nested re-slicing
                    if b - a >= 2 {
                        let inner = &sl[a..b][1..b - a - 1 + 1];
                        rep.expect(rows_of::<C>(inner) == &rows[a + 1..b], "C03 nested re-slicing", || format!("{} n={}", C::NAME, n));
                    }
                }
            }
            rep.expect(rows_of::<C>(&sl[..]) == rows, "C03 .. selects everything", || format!("{} n={}", C::NAME, n));
            // out of bounds: never a symbol
            rep.expect(sl.get(n).is_none() && sl.get(n + 1).is_none() && sl.get(usize::MAX).is_none() && sl.get(1usize << 63).is_none(), "C03 get beyond the end returns nothing", || format!("{} n={}", C::NAME, n));
            for i in [n, n + 1, usize::MAX, 1usize << 63, (1usize << 63) + 1, (usize::MAX / (C::BITS as usize).max(1)).wrapping_add(1), (1usize << 62), (1usize << 61) + 1] {
                if i < n {
                    continue;
                }
                rep.expect(caught(|| sl.nth(i)).is_none(), "C03 nth beyond the end panics", || format!("{} n={} nth({})", C::NAME, n, i));
                rep.expect(caught(|| sl[i].len()).is_none(), "C03 seq[i] beyond the end panics", || format!("{} n={} [{}]", C::NAME, n, i));
                rep.expect(caught(|| sl[0..i.max(n + 1)].len()).is_none(), "C03 a..b beyond the end panics", || format!("{} n={} 0..{}", C::NAME, n, i.max(n + 1)));
                rep.expect(caught(|| sl[..=i].len()).is_none(), "C03 ..=b beyond the end panics", || format!("{} n={} ..={}", C::NAME, n, i));
                rep.expect(caught(|| sl[0..=i].len()).is_none(), "C03 a..=b beyond the end panics", || format!("{} n={} 0..={}", C::NAME, n, i));
                if i > n {
                    rep.expect(caught(|| sl[i..].len()).is_none(), "C03 a.. beyond the end panics", || format!("{} n={} {}..", C::NAME, n, i));
                    rep.expect(caught(|| sl[..i].len()).is_none(), "C03 ..b beyond the end panics", || format!("{} n={} ..{}", C::NAME, n, i));
                }
            }
            if n >= 2 {
                rep.expect(caught(|| sl[2..1].len()).is_none(), "C03 reversed range panics", || format!("{} n={}", C::NAME, n));
            }
        });
    }
}
fn c03(_tier: &str, seed: u64) -> Report {
    let mut rep = Report::new("C03", "lengths 0,1,2,5,13,33,70 at random symbol offsets 0..16, all (a,b) with a <= 6, out-of-range positions n, n+1, 2^61+1, 2^62, 2^63, 2^63+1, usize::MAX; 7 codecs; run in both build profiles");
    rep.functions = vec!["Index impls / nth / get on the real crate (witness search for the refuse-mode obligations, incl. wrap-around positions)"];
    let mut rng = Rng::new(seed);
    for_codecs!(c03_codec, &mut rep, &mut rng);
    rep
}

// ------------------------------------------------------------------------------------------ C04
fn layout_value<C: Oracle>(rows: &[usize]) -> u128 {
    let mut v: u128 = 0;
    for (i, &r) in rows.iter().enumerate() {
        v |= (C::entry(r).code as u128) << (i * C::BITS as usize);
    }
    v
}
fn image_rows<C: Oracle>(img: &[usize], n: usize) -> Vec<u8> {
    (0..n).map(|i| {
        let mut c = 0u8;
        for j in 0..C::BITS as usize {
            let k = i * C::BITS as usize + j;
            if (img[k / 64] >> (k % 64)) & 1 == 1 {
                c |= 1 << j;
            }
        }
        c
    }).collect()
}
fn c04_codec<C: Oracle>(rep: &mut Report, rng: &mut Rng) {
    let w = C::BITS as usize;
    let maxn = 64 / w;
    for n in [1usize, 2, maxn.saturating_sub(1).max(1), maxn, maxn + 1, maxn + 3] {
        for off in [0usize, 1, 5, 11] {
            let rows = rand_rows::<C>(rng, n);
            with_offset::<C, _>(&rows, off, &mut Rng::new(rng.next()), |sl| {
                rep.case(|| format!("{} n={} off={}", C::NAME, n, off));
                let got = usize::try_from(sl);
                if n * w <= 64 {
                    rep.expect(got == Ok(layout_value::<C>(&rows) as usize), "C04 integer of a slice = sum code_i * 2^(i*BITS)", || format!("{} {} off={}", C::NAME, sl, off));
                } else {
                    rep.expect(matches!(got, Err(ParseBioError::SequenceTooLong(_, _))), "C04 longer slices are refused, not truncated", || format!("{} n={}", C::NAME, n));
                }
                // owned sequences of every history convert to the same integer (stale bits beyond the end must not leak)
                if n * w <= 64 {
                    let want = layout_value::<C>(&rows) as usize;
                    let mut longer = rows.clone();
                    longer.extend((0..3).map(|_| C::len() - 1));
                    let mut t = build::<C>(&longer);
                    t.truncate(n);
                    let mut r = build::<C>(&longer);
                    r.remove(n..);
                    let dirty: Vec<usize> = { let mut v = build::<C>(&longer).into_raw().to_vec(); v.push(usize::MAX); v };
                    let fr = Seq::<C>::from_raw(n, &dirty);
                    rep.expect(usize::from(sl.to_owned()) == want && usize::from(t) == want && usize::from(r) == want && fr.map(usize::from) == Some(want),
                        "C04 integer of an owned sequence = sum code_i * 2^(i*BITS), whatever its history", || format!("{} {} off={}", C::NAME, sl, off));
                }
                // owned copies: raw image uses the documented layout from bit 0 of word 0
                let owned = sl.to_owned();
                let img = owned.into_raw().to_vec();
                let codes: Vec<u8> = rows.iter().map(|&r| C::entry(r).code).collect();
                rep.expect(img.len() * 64 >= n * w && image_rows::<C>(&img, n) == codes, "C04 raw image of a copied slice uses the documented layout from bit 0", || format!("{} {} off={} img={:x?}", C::NAME, sl, off, img));
                match Seq::<C>::from_raw(n, &img) {
                    Some(back) => rep.expect(back == owned, "C04 from_raw(len, into_raw()) gives the sequence back", || format!("{} {} off={}", C::NAME, sl, off)),
                    None => rep.expect(false, "C04 from_raw accepts an image that holds the symbols", || format!("{} {}", C::NAME, sl)),
                }
                // every other way to obtain an owned sequence from these bits (public conversions from raw bit containers,
                // clones, edits of them): the exported image starts at bit 0 of word 0 and rebuilds the sequence
                let bits_src = bitvec::slice::BitSlice::<usize, bitvec::order::Lsb0>::from_slice(owned.into_raw());
                let parent_bits = &bits_src[..n * w];
                let mut shifted = bitvec::vec::BitVec::<usize, bitvec::order::Lsb0>::repeat(false, off * w % 61);
                shifted.extend_from_bitslice(parent_bits);
                let un = &shifted[off * w % 61..];
                let from_bs: Seq<C> = Seq::from(un);
                let from_bv: Seq<C> = Seq::from(un.to_bitvec());
                let mut edited: Seq<C> = Seq::from(un);
                edited.push(C::entry(rows[0]).sym);
                edited.truncate(n);
                for (what, x) in [("From<&BitSlice>", &from_bs), ("From<BitVec>", &from_bv), ("From<&BitSlice> then clone", &from_bs.clone()), ("From<&BitSlice>, push, truncate", &edited)] {
                    let im = x.into_raw().to_vec();
                    rep.expect(*x == owned && image_rows::<C>(&im, n) == codes && Seq::<C>::from_raw(n, &im).as_ref() == Some(x),
                        "C04 raw image of an owned sequence built from a raw bit container uses the documented layout from bit 0", || format!("{} {} {} head-offset={} img={:x?}", C::NAME, what, sl, off * w % 61, im));
                }
            });
        }
    }
    // rebuilding: all counts 0..words*64/BITS + 2
    for words in 0..3usize {
        let img: Vec<usize> = (0..words).map(|_| if w == 8 { 0x4141_4141_4141_4141 } else { 0 }).collect();
        let cap = words * 64 / w;
        for len in 0..cap + 3 {
            rep.case(|| format!("{} from_raw({}, {} words)", C::NAME, len, words));
            let got = Seq::<C>::from_raw(len, &img);
            if len <= cap {
                rep.expect(got.as_ref().map(|s| s.len()) == Some(len), "C04 from_raw returns len symbols when the image holds them", || format!("{} from_raw({}, {} words) -> {:?}", C::NAME, len, words, got.as_ref().map(|s| s.len())));
            } else {
                rep.expect(got.is_none(), "C04 from_raw returns nothing when the image does not hold that many symbols", || format!("{} from_raw({}, {} words) -> Some(len {})", C::NAME, len, words, got.as_ref().map(|s| s.len()).unwrap_or(0)));
            }
        }
    }
    // results of bitwise ops, reverse, edits: image layout
    for off in [1usize, 3, 9] {
        let n = 5;
        let rows = rand_rows::<C>(rng, n);
        with_offset::<C, _>(&rows, off, &mut Rng::new(rng.next()), |sl| {
            let a = sl | sl;
            let b = sl & sl;
            let r = sl.to_rev();
            let codes: Vec<u8> = rows.iter().map(|&r| C::entry(r).code).collect();
            let mut rc = codes.clone();
            rc.reverse();
            rep.expect(image_rows::<C>(a.into_raw(), n) == codes && image_rows::<C>(b.into_raw(), n) == codes, "C04 raw image of a bitwise-op result uses the documented layout", || format!("{} {} off={}", C::NAME, sl, off));
            rep.expect(image_rows::<C>(r.into_raw(), n) == rc, "C04 raw image of a reversed copy uses the documented layout", || format!("{} {} off={}", C::NAME, sl, off));
        });
    }
}
fn c04_kmer<const K: usize>(rep: &mut Report, rng: &mut Rng) {
    for _ in 0..40 {
        let rows = rand_rows::<Dna>(rng, K);
        let v = layout_value::<Dna>(&rows) as usize;
        rep.case(|| format!("Kmer<Dna,{}> {:#x}", K, v));
        let k: Kmer<Dna, K> = Kmer::from(v);
        let txt = String::from_utf8(text_of::<Dna>(&rows)).unwrap();
        rep.expect(k.to_string() == txt, "C04 decoding an integer as a K-mer yields the symbols of the layout", || format!("K={} {:#x} -> {} expected {}", K, v, k, txt));
        rep.expect(usize::from(&k) == v, "C04 integer of a k-mer = sum code_i * 2^(i*BITS)", || format!("K={} {}", K, txt));
        let s = build::<Dna>(&rows);
        rep.expect(usize::from(s) == v, "C04 From<Seq> for usize uses the layout", || format!("K={} {}", K, txt));
        let k64: Kmer<Dna, K, u64> = Kmer::from(v as u64);
        rep.expect(k64.to_string() == txt, "C04 u64-backed k-mer decodes the same layout", || format!("K={} {}", K, txt));
    }
}
fn c04(_tier: &str, seed: u64) -> Report {
    let mut rep = Report::new("C04", "slices of n in {1,2,max-1,max,max+1,max+3} symbols at offsets 0,1,5,11 per codec; from_raw for 0..2 words and every count 0..cap+2; Kmer<Dna,K> K in {1,5,16,31,32} x 40 random values");
    rep.functions = vec!["From<usize|u64> for Kmer", "From<&Kmer> for usize", "From<Seq> for usize", "Display for Kmer", "witness search for from_raw / into_raw / to_owned obligations"];
    let mut rng = Rng::new(seed);
    for_codecs!(c04_codec, &mut rep, &mut rng);
    c04_kmer::<1>(&mut rep, &mut rng);
    c04_kmer::<5>(&mut rep, &mut rng);
    c04_kmer::<16>(&mut rep, &mut rng);
    c04_kmer::<31>(&mut rep, &mut rng);
    c04_kmer::<32>(&mut rep, &mut rng);
    // documented table 0:AAAAA 1:CAAAA ...
    let doc = ["AAAAA", "CAAAA", "GAAAA", "TAAAA", "ACAAA", "CCAAA", "GCAAA"];
    for (i, d) in doc.iter().enumerate() {
        let k: Kmer<Dna, 5> = Kmer::from(i);
        rep.expect(k.to_string() == *d, "C04 documented table 0:AAAAA 1:CAAAA ...", || format!("{} -> {}", i, k));
    }
    rep
}

// ------------------------------------------------------------------------------------------ C06
fn c06_codec<C: Oracle>(rep: &mut Report, steps: usize, rng: &mut Rng) {
    let n0 = rng.below(4);
    let mut model: Vec<usize> = rand_rows::<C>(rng, n0);
    let mut seq = build::<C>(&model);
    let mut snapshots: Vec<(Seq<C>, Vec<usize>)> = vec![];
    let mut hist = String::new();
    for step in 0..steps {
        let op = rng.below(10);
        let n = model.len();
        let na = rng.below(5);
        let arg = rand_rows::<C>(rng, na);
        let off = rng.below(13);
        match op {
            0 => {
                let r = rng.below(C::len());
                seq.push(C::entry(r).sym);
                model.push(r);
                hist.push_str("push;");
            }
            1 => {
                // iterators of every size-hint shape: exact, upper bound larger than the yield (filter / take_while / skip_while),
                // unknown upper bound (from_fn), chained
                let drop = C::entry(rng.below(C::len())).sym;
                let kept: Vec<usize> = arg.iter().copied().filter(|&r| C::entry(r).sym != drop).collect();
                match step % 5 {
                    0 => { seq.extend(arg.iter().map(|&r| C::entry(r).sym)); model.extend(&arg); }
                    1 => { seq.extend(arg.iter().map(|&r| C::entry(r).sym).filter(|s| *s != drop)); model.extend(&kept); }
                    2 => {
                        let k = arg.iter().position(|&r| C::entry(r).sym == drop).unwrap_or(arg.len());
                        seq.extend(arg.iter().map(|&r| C::entry(r).sym).take_while(|s| *s != drop));
                        model.extend(&arg[..k]);
                    }
                    3 => {
                        let mut it = arg.iter().map(|&r| C::entry(r).sym);
                        seq.extend(std::iter::from_fn(move || it.next()));
                        model.extend(&arg);
                    }
                    _ => {
                        Extend::extend(&mut seq, arg.iter().map(|&r| C::entry(r).sym).chain(kept.iter().map(|&r| C::entry(r).sym)).skip_while(|s| *s == drop));
                        let all: Vec<usize> = arg.iter().chain(kept.iter()).copied().collect();
                        let k = all.iter().position(|&r| C::entry(r).sym != drop).unwrap_or(all.len());
                        model.extend(&all[k..]);
                    }
                }
                hist.push_str("extend;");
            }
            2 => {
                with_offset::<C, _>(&arg, off, &mut Rng::new(rng.next()), |sl| seq.append(sl));
                model.extend(&arg);
                hist.push_str("append;");
            }
            3 => {
                with_offset::<C, _>(&arg, off, &mut Rng::new(rng.next()), |sl| seq.prepend(sl));
                let mut m = arg.clone();
                m.extend(&model);
                model = m;
                hist.push_str("prepend;");
            }
            4 => {
                let i = rng.below(n + 1);
                with_offset::<C, _>(&arg, off, &mut Rng::new(rng.next()), |sl| seq.insert(i, sl));
                let tail = model.split_off(i);
                model.extend(&arg);
                model.extend(tail);
                hist.push_str(&format!("insert@{};", i));
            }
            5 => {
                let a = rng.below(n + 1);
                let b = a + rng.below(n - a + 1);
                match rng.below(8) {
                    6 if a > 0 => { use std::ops::Bound::*; seq.remove((Excluded(a - 1), Excluded(b))) }
                    7 if a > 0 && b > a => { use std::ops::Bound::*; seq.remove((Excluded(a - 1), Included(b - 1))) }
                    0 => seq.remove(a..b),
                    1 if b > a => seq.remove(a..=b - 1),
                    2 => { seq.remove(..b); model.drain(..b); hist.push_str("remove..b;"); continue_check(rep, &seq, &model, &hist); continue; }
                    3 => { seq.remove(a..); model.truncate(a); hist.push_str("remove a..;"); continue_check(rep, &seq, &model, &hist); continue; }
                    4 if b > 0 => { seq.remove(..=b - 1); model.drain(..b); hist.push_str("remove..=b;"); continue_check(rep, &seq, &model, &hist); continue; }
                    5 if n < 6 => { seq.remove(..); model.clear(); hist.push_str("remove..;"); continue_check(rep, &seq, &model, &hist); continue; }
                    _ => seq.remove(a..b),
                }
                model.drain(a..b);
                hist.push_str(&format!("remove {}..{};", a, b));
            }
            6 => {
                let l = rng.below(n + 3);
                seq.truncate(l);
                model.truncate(l);
                hist.push_str(&format!("truncate {};", l));
            }
            7 if step % 17 == 0 => {
                seq.clear();
                model.clear();
                hist.push_str("clear;");
            }
            8 => {
                snapshots.push((seq.clone(), model.clone()));
                // the other copying routes of the std traits (an overridden clone_from / clone_into)
                let (m1, m2) = (1 + rng.below(40), 1 + rng.below(40));
                let mut target = build::<C>(&rand_rows::<C>(rng, m1));
                target.clone_from(&seq);
                snapshots.push((target, model.clone()));
                let mut target2 = build::<C>(&rand_rows::<C>(rng, m2));
                seq[..].clone_into(&mut target2);
                snapshots.push((target2, model.clone()));
                if n > 1 {
                    let a = rng.below(n);
                    snapshots.push((seq[a..].to_owned(), model[a..].to_vec()));
                }
                hist.push_str("snapshot;");
            }
            _ => {
                let r = rng.below(C::len());
                seq.push(C::entry(r).sym);
                model.push(r);
                hist.push_str("push;");
            }
        }
        continue_check(rep, &seq, &model, &hist);
        if hist.len() > 400 {
            hist = hist[hist.len() - 200..].to_string();
        }
    }
    for (s, m) in &snapshots {
        rep.expect(rows_of::<C>(s) == *m, "C06 clones and copied slices keep their old content", || format!("{} ...{}", C::NAME, hist));
    }
    // every public way to build an owned sequence from a list of symbols gives that list (and can be edited on)
    for n in [0usize, 1, 2, 7, 31, 32, 33, 64, 65, 130] {
        let rows = rand_rows::<C>(rng, n);
        let syms: Vec<C> = rows.iter().map(|&r| C::entry(r).sym).collect();
        rep.case(|| format!("{} construction forms n={}", C::NAME, n));
        let a: Seq<C> = syms.iter().copied().collect();
        let b: Seq<C> = Seq::from(&syms);
        let mut c: Seq<C> = Seq::with_capacity(n / 2);
        c.extend(syms.iter().copied());
        let mut d: Seq<C> = Seq::default();
        Extend::extend(&mut d, syms.iter().copied());
        let e: Seq<C> = Seq::from_iter(syms.clone());
        // collecting from an iterator whose size hint overestimates (filter_map) or is unknown
        let marked: Vec<Option<C>> = syms.iter().flat_map(|s| [None, Some(*s), None]).collect();
        let e2: Seq<C> = marked.iter().filter_map(|x| *x).collect();
        let mut it2 = syms.iter().copied();
        let e3: Seq<C> = std::iter::from_fn(move || it2.next()).collect();
        rep.expect(e2 == e && e3 == e && e2.len() == n, "C06 every way to build an owned sequence from a list of symbols yields that list", || format!("{} collect from filter_map / from_fn n={} got {} / {}", C::NAME, n, e2, e3));
        let f: Seq<C> = build::<C>(&rows)[..].into();
        for (what, x) in [("collect", &a), ("From<&Vec<A>>", &b), ("with_capacity + extend", &c), ("default + Extend", &d), ("from_iter", &e), ("From<&SeqSlice>", &f)] {
            rep.expect(x.len() == n && rows_of::<C>(x) == rows && *x == a, "C06 every way to build an owned sequence from a list of symbols yields that list", || format!("{} {} n={} got {}", C::NAME, what, n, x));
        }
        let mut g = b.clone();
        g.push(C::entry(0).sym);
        g.remove(0..g.len().min(1));
        let mut want = rows.clone();
        want.push(0);
        want.remove(0);
        rep.expect(rows_of::<C>(&g) == want && rows_of::<C>(&b) == rows, "C06 edits behave like list edits", || format!("{} From<&Vec> then push/remove: {}", C::NAME, g));
    }
    fn continue_check<C: Oracle>(rep: &mut Report, seq: &Seq<C>, model: &[usize], hist: &str) {
        rep.case(|| format!("{} {}", C::NAME, &hist[hist.len().saturating_sub(80)..]));
        rep.expect(seq.len() == model.len() && rows_of::<C>(seq) == model, "C06 edits behave like list edits", || format!("{} history ...{} got {} want rows {:?}", C::NAME, &hist[hist.len().saturating_sub(160)..], seq, model));
    }
}
fn c06(tier: &str, seed: u64) -> Report {
    let mut rep = Report::new("C06", "random edit histories (quick 300, thorough 3000 steps per codec) over push/extend/append/prepend/insert/remove(6 range forms)/truncate/clear with argument slices at random offsets, snapshots via clone/to_owned, compared with a Vec model after every step");
    rep.functions = vec!["Seq::extend (for_each closure)", "Extend / FromIterator glue", "cross-check of the Verus-verified edit contracts on the real bitvec"];
    let mut rng = Rng::new(seed);
    let steps = if tier == "thorough" { 3000 } else { 300 };
    for_codecs!(c06_codec, &mut rep, steps, &mut rng);
    rep
}

// ------------------------------------------------------------------------------------------ C07 / C20 (in-place loops)
fn comp_rows<C: Oracle>(rows: &[usize]) -> Vec<usize> {
    rows.iter().map(|&r| {
        let ch = if C::WIDTH == 1 { C::entry(r).ch } else { comp_letter(C::entry(r).ch) };
        C::expect_ascii(ch).unwrap()
    }).collect()
}
fn c07_rev<C: Oracle>(rep: &mut Report, maxlen: usize, rng: &mut Rng) {
    let mut lens: Vec<usize> = (0..=maxlen).collect();
    lens.extend([31, 32, 33, 63, 64, 65, 70, 257, 1025]);
    for n in lens {
        for off in 0..(64 / C::BITS as usize).min(9) + 1 {
            let rows = rand_rows::<C>(rng, n);
            with_offset::<C, _>(&rows, off, &mut Rng::new(rng.next()), |sl| {
                rep.case(|| format!("rev {} n={} off={}", C::NAME, n, off));
                let mut want = rows.clone();
                want.reverse();
                let before = sl.to_string();
                let r = sl.to_rev();
                rep.expect(rows_of::<C>(&r) == want, "C07 to_rev yields the symbols in opposite order", || format!("{} {} off={} -> {}", C::NAME, sl, off, r));
                rep.expect(sl.to_string() == before, "C07 copying forms leave the receiver untouched", || format!("{} {}", C::NAME, before));
                let owned = sl.to_owned();
                rep.expect(owned.to_rev() == r, "C07 same answer for an owned sequence and a slice at any offset", || format!("{} {} off={}", C::NAME, sl, off));
                let mut inplace = sl.to_owned();
                inplace.rev();
                rep.expect(inplace == r, "C07 in-place rev on a copy equals to_rev", || format!("{} {}", C::NAME, sl));
                inplace.rev();
                rep.expect(rows_of::<C>(&inplace) == rows, "C07 rev twice restores the original", || format!("{} {}", C::NAME, sl));
                if off == 0 {
                    for (how, mut h) in history_variants::<C>(&rows) {
                        let copy = h.to_rev();
                        h.rev();
                        rep.expect(rows_of::<C>(&h) == want && h == r && copy == r && h.len() == n, "C07 reversing an owned sequence does not depend on its history", || format!("{} {} history={} -> {}", C::NAME, sl, how, h));
                    }
                }
            });
        }
    }
}
macro_rules! c07_comp {
    ($C:ty, $rep:expr, $maxlen:expr, $rng:expr) => {{
        type C = $C;
        let rep: &mut Report = $rep;
        let maxlen: usize = $maxlen;
        let rng: &mut Rng = $rng;

    let mut lens: Vec<usize> = (0..=maxlen).collect();
    lens.extend([31, 32, 33, 63, 64, 65, 70, 257, 1025]);
    for n in lens {
        for off in [0usize, 1, 2, 3, 5, 12, 13] {
            let rows = rand_rows::<C>(rng, n);
            with_offset::<C, _>(&rows, off, &mut Rng::new(rng.next()), |sl| {
                rep.case(|| format!("comp {} n={} off={}", C::NAME, n, off));
                let wantc = comp_rows::<C>(&rows);
                let mut wantrc = wantc.clone();
                wantrc.reverse();
                let c = sl.to_comp();
                let rc = sl.to_revcomp();
                rep.expect(rows_of::<C>(&c) == wantc, "C07 to_comp complements each symbol in place", || format!("{} {} off={} -> {}", C::NAME, sl, off, c));
                rep.expect(rows_of::<C>(&rc) == wantrc, "C07 to_revcomp is reverse and complement at once", || format!("{} {} off={} -> {}", C::NAME, sl, off, rc));
                rep.expect(c.to_rev() == rc && sl.to_rev().to_comp() == rc, "C07 revcomp equals either order of composition", || format!("{} {}", C::NAME, sl));
                rep.expect(rows_of::<C>(&rc.to_revcomp()) == rows && rows_of::<C>(&c.to_comp()) == rows, "C07 comp / revcomp twice restore the original", || format!("{} {}", C::NAME, sl));
                let mut o = sl.to_owned();
                rep.expect(o.to_comp() == c && o.to_revcomp() == rc, "C07 same answer for owned and borrowed", || format!("{} {}", C::NAME, sl));
                o.comp();
                rep.expect(o == c, "C07 in-place comp on a copy equals to_comp", || format!("{} {}", C::NAME, sl));
                o.rev();
                rep.expect(o == rc, "C07 comp then rev in place equals to_revcomp", || format!("{} {}", C::NAME, sl));
                let mut o2 = sl.to_owned();
                o2.revcomp();
                rep.expect(o2 == rc, "C07 in-place revcomp equals to_revcomp", || format!("{} {}", C::NAME, sl));
                if off == 0 {
                    for (how, h) in history_variants::<C>(&rows) {
                        let (mut hc, mut hrc) = (h.clone(), h.clone());
                        hc.comp();
                        hrc.revcomp();
                        rep.expect(hc == c && hrc == rc && h.to_comp() == c && h.to_revcomp() == rc && rows_of::<C>(&h) == rows, "C07 complementing an owned sequence does not depend on its history", || format!("{} {} history={}", C::NAME, sl, how));
                    }
                }
            });
        }
    }
    }};
}
fn c07(tier: &str, seed: u64) -> Report {
    let mut rep = Report::new("C07", "lengths 0..=4 (thorough 0..=8) and 31,32,33,63,64,65,70 at start offsets 0..min(64/BITS,9) for reverse (7 codecs) and 0,1,2,3,5,12,13 for complement (5 complementable codecs), random content per case");
    rep.functions = vec!["ReverseMut::rev for Seq (loop over rchunks_exact_mut)", "ComplementMut::comp for Seq (loop over chunks_exact_mut + remove_alias)", "to_rev/to_comp/to_revcomp/revcomp on the real crate"];
    let mut rng = Rng::new(seed);
    let m = if tier == "thorough" { 8 } else { 4 };
    for_codecs!(c07_rev, &mut rep, m, &mut rng);
    c07_comp!(Dna, &mut rep, m, &mut rng);
    c07_comp!(Iupac, &mut rep, m, &mut rng);
    c07_comp!(masked::dna::Dna, &mut rep, m, &mut rng);
    c07_comp!(masked::iupac::Iupac, &mut rep, m, &mut rng);
    c07_comp!(degenerate::dna::Dna, &mut rep, m, &mut rng);
    rep
}

fn mask_rows<C: Oracle>(rows: &[usize], mask: bool) -> Vec<usize> {
    rows.iter().map(|&r| {
        let ch = C::entry(r).ch;
        let out = if C::WIDTH == 5 {
            // masked IUPAC: lower / upper case forms, '-' <-> '.'
            if mask { if ch == b'-' || ch == b'.' { b'.' } else { ch.to_ascii_lowercase() } } else if ch == b'-' || ch == b'.' { b'-' } else { ch.to_ascii_uppercase() }
        } else {
            // masked DNA: toggle case of letters; gap and pad fixed; '?' <-> '!' (bit inversion)
            match ch {
                b'?' => b'!',
                b'!' => b'?',
                c if c.is_ascii_lowercase() => c.to_ascii_uppercase(),
                c if c.is_ascii_uppercase() => c.to_ascii_lowercase(),
                c => c,
            }
        };
        C::expect_ascii(out).unwrap()
    }).collect()
}
macro_rules! c20_codec {
    ($C:ty, $rep:expr, $rng:expr) => {{
        type C = $C;
        let rep: &mut Report = $rep;
        let rng: &mut Rng = $rng;

    for n in [0usize, 1, 2, 3, 12, 13, 14, 25, 26, 38, 39, 51, 52, 64, 70, 257, 1025] {
        for _ in 0..3 {
            let rows = rand_rows::<C>(rng, n);
            let s = build::<C>(&rows);
            rep.case(|| format!("mask {} {}", C::NAME, s));
            let m = s.to_mask();
            let u = s.to_unmask();
            rep.expect(rows_of::<C>(&m) == mask_rows::<C>(&rows, true) && m.len() == n, "C20 mask applies position-wise and preserves length", || format!("{} {} -> {}", C::NAME, s, m));
            rep.expect(rows_of::<C>(&u) == mask_rows::<C>(&rows, false) && u.len() == n, "C20 unmask applies position-wise and preserves length", || format!("{} {} -> {}", C::NAME, s, u));
            rep.expect(rows_of::<C>(&s) == rows, "C20 to_mask/to_unmask leave the receiver untouched", || format!("{} {}", C::NAME, s));
            let mut ip = s.clone();
            ip.mask();
            rep.expect(ip == m, "C20 in-place mask equals to_mask", || format!("{} {}", C::NAME, s));
            let mut ip = s.clone();
            ip.unmask();
            rep.expect(ip == u, "C20 in-place unmask equals to_unmask", || format!("{} {}", C::NAME, s));
            rep.expect(m.to_comp() == s.to_comp().to_mask() && m.to_rev() == s.to_rev().to_mask() && m.to_revcomp() == s.to_revcomp().to_mask(), "C20 masking commutes with complement and reverse", || format!("{} {}", C::NAME, s));
            for (how, mut h) in history_variants::<C>(&rows) {
                let copy = h.to_mask();
                let ucopy = h.to_unmask();
                h.mask();
                rep.expect(h == m && copy == m && ucopy == u, "C20 masking an owned sequence does not depend on its history", || format!("{} {} history={}", C::NAME, s, how));
            }
            if C::WIDTH == 5 {
                rep.expect(m.to_mask() == m && u.to_unmask() == u && m.to_unmask() == u, "C20 mask/unmask idempotent; unmask after mask equals unmask", || format!("{} {}", C::NAME, s));
            } else {
                rep.expect(m.to_mask() == s && u.to_unmask() == s, "C20 masked DNA: mask/unmask are involutions", || format!("{} {}", C::NAME, s));
            }
        }
    }
    }};
}
fn c20(_tier: &str, seed: u64) -> Report {
    let mut rep = Report::new("C20", "lengths 0,1,2,3,12,13,14,25,26,38,39,51,52,64,70 (5-bit symbols straddling 64-bit words at positions 12,25,38,51) x 3 random contents for masked::Iupac; same lengths for masked::Dna");
    rep.functions = vec!["MaskableMut::mask/unmask for Seq (loops over chunks_exact_mut + remove_alias)", "Maskable::to_mask/to_unmask"];
    let mut rng = Rng::new(seed);
    c20_codec!(masked::iupac::Iupac, &mut rep, &mut rng);
    // masked::Dna does not implement Maskable for sequences unless the trait impls exist; guarded at compile time below
    c20_dna(&mut rep, &mut rng);
    rep
}
fn c20_dna(rep: &mut Report, rng: &mut Rng) {
    type D = masked::dna::Dna;
    for n in [0usize, 1, 2, 15, 16, 17, 33, 1025] {
        let rows = rand_rows::<D>(rng, n);
        let s = build::<D>(&rows);
        rep.case(|| format!("mask masked_dna {}", s));
        let mut m = s.clone();
        m.mask();
        rep.expect(rows_of::<D>(&m) == mask_rows::<D>(&rows, true), "C20 masked DNA: mask toggles case position-wise, gap/pad fixed", || format!("{} -> {}", s, m));
        let mut mm = m.clone();
        mm.unmask();
        rep.expect(mm == s, "C20 masked DNA: unmask after mask restores", || format!("{}", s));
    }
}

// ------------------------------------------------------------------------------------------ C08
/// k-mers compared by their packed integer; every consumer is forwarded to the k-mer iterator itself so that an overridden
/// nth / count / last / size_hint / fold of KmerIter is what runs
struct KmerVals<I>(I);
impl<C: Codec, const K: usize, I: Iterator<Item = Kmer<C, K>>> Iterator for KmerVals<I> {
    type Item = usize;
    fn next(&mut self) -> Option<usize> { self.0.next().map(|k| k.bs) }
    fn nth(&mut self, n: usize) -> Option<usize> { self.0.nth(n).map(|k| k.bs) }
    fn size_hint(&self) -> (usize, Option<usize>) { self.0.size_hint() }
    fn count(self) -> usize { self.0.count() }
    fn last(self) -> Option<usize> { self.0.last().map(|k| k.bs) }
    fn fold<B, F: FnMut(B, usize) -> B>(self, init: B, mut f: F) -> B { self.0.fold(init, |a, k| f(a, k.bs)) }
}
fn c08_k<C: Oracle, const K: usize>(rep: &mut Report, rng: &mut Rng) {
    for n in [0usize, K.saturating_sub(1), K, K + 1, K + 3, 2 * K + 5, 70] {
        let rows = rand_rows::<C>(rng, n);
        let off = rng.below(11);
        with_offset::<C, _>(&rows, off, &mut Rng::new(rng.next()), |sl| {
            rep.case(|| format!("{} K={} n={} off={}", C::NAME, K, n, off));
            let ks: Vec<Kmer<C, K>> = sl.kmers::<K>().collect();
            let want = if n >= K { n - K + 1 } else { 0 };
            rep.expect(ks.len() == want, "C08 kmers yields max(0, n-K+1) k-mers", || format!("{} K={} n={} got {}", C::NAME, K, n, ks.len()));
            let ws: Vec<&SeqSlice<C>> = sl.windows(K).collect();
            rep.expect(ws.len() == want, "C08 windows(K) yields the same number of windows", || format!("{} K={} n={}", C::NAME, K, n));
            let kvals: Vec<usize> = ks.iter().map(|k| k.bs).collect();
            adaptors_agree(rep, "C08 nth / skip / step_by / count / last / size_hint of the k-mer iterator agree with next()", &|| format!("{} K={} n={} off={}", C::NAME, K, n, off), &kvals, &|| KmerVals(sl.kmers::<K>()));
            for (i, k) in ks.iter().enumerate() {
                let txt = String::from_utf8(text_of::<C>(&rows[i..i + K])).unwrap();
                let canon = build::<C>(&rows[i..i + K]).to_string();
                rep.expect(k.to_string() == canon && *k == ws[i] && k.len() == K, "C08 the i-th k-mer holds symbols i..i+K (display, equality with the window)", || format!("{} K={} i={} {} vs {}", C::NAME, K, i, k, canon));
                rep.expect(rows_of::<C>(&**k) == &rows[i..i + K], "C08 deref of a k-mer gives the same symbols", || format!("{} K={} {}", C::NAME, K, k));
                let back: Seq<C> = Seq::from(*k);
                rep.expect(rows_of::<C>(&back) == &rows[i..i + K], "C08 converting a k-mer back to a sequence gives the same symbols", || format!("{} K={} {}", C::NAME, K, k));
                match Kmer::<C, K>::from_str(&txt) {
                    Ok(p) => rep.expect(p == *k, "C08 a k-mer parsed from text equals the k-mer of those symbols", || format!("{} {}", C::NAME, txt)),
                    Err(e) => rep.expect(false, "C08 valid text of length K parses", || format!("{} {} {:?}", C::NAME, txt, e)),
                }
            }
            // construction: exact length only
            let r: Result<Kmer<C, K>, _> = Kmer::try_from(sl);
            if n == K {
                rep.expect(r.is_ok(), "C08 try_from a slice of length K succeeds", || format!("{} K={}", C::NAME, K));
            } else {
                rep.expect(r == Err(ParseBioError::MismatchedLength(K, n)), "C08 wrong length is an error, never a truncated or padded k-mer", || format!("{} K={} n={} got {:?}", C::NAME, K, n, r.map(|k| k.to_string())));
                let t = String::from_utf8(text_of::<C>(&rows)).unwrap();
                rep.expect(Kmer::<C, K>::from_str(&t).is_err(), "C08 text of the wrong length is an error", || format!("{} K={} {:?}", C::NAME, K, t));
            }
            let r2: Result<Kmer<C, K>, _> = Kmer::try_from(sl.to_owned());
            rep.expect(r2.is_ok() == (n == K), "C08 try_from an owned sequence succeeds exactly for length K", || format!("{} K={} n={}", C::NAME, K, n));
            for (how, h) in history_variants::<C>(&rows) {
                let hk: Vec<usize> = h.kmers::<K>().map(|k| k.bs).collect();
                let sk: Vec<usize> = sl.kmers::<K>().map(|k| k.bs).collect();
                let direct: Result<Kmer<C, K>, _> = Kmer::try_from(h.clone());
                rep.expect(hk == sk && direct.is_ok() == (n == K) && (n != K || direct.as_ref().map(|k| k.bs).ok() == sk.first().copied()), "C08 the k-mers of an owned sequence do not depend on its history", || format!("{} K={} n={} history={}", C::NAME, K, n, how));
            }
            if n == K {
                // the other construction routes agree with try_from
                let a: Kmer<C, K> = Kmer::try_from(sl).unwrap();
                let b: Kmer<C, K> = Kmer::unsafe_from_seqslice(sl);
                let c: Kmer<C, K> = Kmer::try_from(sl.to_owned()).unwrap();
                rep.expect(a.bs == b.bs && a.bs == c.bs && b.to_string() == sl.to_string() && rows_of::<C>(&*b) == rows, "C08 every construction route gives the k-mer of those symbols", || format!("{} K={} {} / {} / {}", C::NAME, K, a, b, c));
                if K * C::BITS as usize <= 64 {
                    rep.expect(Ok(usize::from(&a)) == usize::try_from(sl), "C08 a k-mer and its slice pack to the same integer", || format!("{} K={} {}", C::NAME, K, a));
                }
            }
        });
    }
    // text whose length is not K because of surplus bytes around K valid symbols: whitespace, line ends, NUL, quotes
    let good = String::from_utf8(text_of::<C>(&rand_rows::<C>(rng, K))).unwrap();
    for (pre, post) in [("", "\n"), ("", "\r\n"), (" ", ""), ("\t", " "), ("", " "), ("", "\0"), ("\u{feff}", ""), ("\"", "\""), ("", "\u{a0}")] {
        let padded = format!("{}{}{}", pre, good, post);
        let r = Kmer::<C, K>::from_str(&padded);
        let r2: Result<Kmer<C, K>, _> = padded.parse();
        rep.expect(r.is_err() && r2.is_err(), "C08 text of the wrong length is an error", || format!("{} K={} {:?} accepted as {:?}", C::NAME, K, padded, r.as_ref().map(|k| k.to_string())));
    }
    // invalid text of the right length
    let mut t = String::from_utf8(text_of::<C>(&rand_rows::<C>(rng, K))).unwrap();
    t.replace_range(K - 1..K, "\u{7f}");
    rep.expect(Kmer::<C, K>::from_str(&t).is_err(), "C08 invalid text is an error", || format!("{} {:?}", C::NAME, t));
}
fn c08(_tier: &str, seed: u64) -> Report {
    let mut rep = Report::new("C08", "sequences of length 0, K-1, K, K+1, K+3, 2K+5, 70 at random offsets; K in {1,2,5,16,31,32} Dna, {1,8,16} Iupac, {1,3,10} Amino, {1,8} text, {1,12} masked 5-bit; u64/u128 storage for Dna K=7,40");
    rep.functions = vec!["FromStr for Kmer", "Display for Kmer (chunks().for_each closure)", "From<Kmer> for Seq (extend)", "kmer! macro", "Iterator adapters over KmerIter (collect)"];
    let mut rng = Rng::new(seed);
    c08_k::<Dna, 1>(&mut rep, &mut rng);
    c08_k::<Dna, 2>(&mut rep, &mut rng);
    c08_k::<Dna, 5>(&mut rep, &mut rng);
    c08_k::<Dna, 16>(&mut rep, &mut rng);
    c08_k::<Dna, 31>(&mut rep, &mut rng);
    c08_k::<Dna, 32>(&mut rep, &mut rng);
    c08_k::<Iupac, 1>(&mut rep, &mut rng);
    c08_k::<Iupac, 8>(&mut rep, &mut rng);
    c08_k::<Iupac, 16>(&mut rep, &mut rng);
    c08_k::<Amino, 1>(&mut rep, &mut rng);
    c08_k::<Amino, 3>(&mut rep, &mut rng);
    c08_k::<Amino, 10>(&mut rep, &mut rng);
    c08_k::<text::Dna, 1>(&mut rep, &mut rng);
    c08_k::<text::Dna, 8>(&mut rep, &mut rng);
    c08_k::<masked::iupac::Iupac, 1>(&mut rep, &mut rng);
    c08_k::<masked::iupac::Iupac, 12>(&mut rep, &mut rng);
    // other storage types
    let rows = rand_rows::<Dna>(&mut rng, 40);
    let s = build::<Dna>(&rows);
    let k128: Kmer<Dna, 40, u128> = Kmer::try_from(&s[..]).unwrap();
    rep.expect(k128.to_string() == s.to_string() && k128 == &s[..], "C08 u128-backed k-mer holds the slice's symbols", || format!("{}", s));
    let k64: Kmer<Dna, 7, u64> = Kmer::try_from(&s[3..10]).unwrap();
    rep.expect(k64.to_string() == s[3..10].to_string() && k64 == &s[3..10], "C08 u64-backed k-mer holds the slice's symbols", || format!("{}", &s[3..10]));
    let lit = kmer!("ACGTTGCA");
    rep.expect(lit.to_string() == "ACGTTGCA" && lit == dna!("ACGTTGCA"), "C08 kmer! literal holds its symbols", || "ACGTTGCA".to_string());
    // wide storage for every symbol width, symbols straddling the two words of a u128 (6-bit: symbol 10; 5-bit: symbol 12),
    // slices at every offset, every construction route; display, deref-free symbol reading, conversion back
    fn wide<C: Oracle, const K: usize, S: bio_seq::kmer::KmerStorage>(rep: &mut Report, rng: &mut Rng)
    where Kmer<C, K, S>: core::fmt::Display {
        for off in [0usize, 1, 3, 7, 13] {
            let rows = rand_rows::<C>(rng, K);
            with_offset::<C, _>(&rows, off, &mut Rng::new(rng.next()), |sl| {
                rep.case(|| format!("wide {} K={} off={}", C::NAME, K, off));
                let canon = build::<C>(&rows).to_string();
                let a: Result<Kmer<C, K, S>, _> = Kmer::try_from(sl);
                let b: Kmer<C, K, S> = Kmer::unsafe_from_seqslice(sl);
                let c: Result<Kmer<C, K, S>, _> = Kmer::from_str(&String::from_utf8(text_of::<C>(&rows)).unwrap());
                let ok = match (&a, &c) {
                    (Ok(a), Ok(c)) => a.to_string() == canon && b.to_string() == canon && c.to_string() == canon && *a == sl && b == sl && *c == sl && rec(a) == rec(sl) && a.len() == K,
                    _ => false,
                };
                rep.expect(ok, "C08 a k-mer on wide storage displays, compares and hashes as the slice it was built from (every construction route)", || format!("{} K={} off={} {} vs {:?}", C::NAME, K, off, canon, a.as_ref().map(|k| k.to_string())));
            });
        }
        let short = build::<C>(&rand_rows::<C>(rng, K - 1));
        let long = build::<C>(&rand_rows::<C>(rng, K + 1));
        let (rs, rl): (Result<Kmer<C, K, S>, _>, Result<Kmer<C, K, S>, _>) = (Kmer::try_from(&short[..]), Kmer::try_from(&long[..]));
        rep.expect(rs.is_err() && rl.is_err(), "C08 wrong length is an error on wide storage too", || format!("{} K={}", C::NAME, K));
    }
    wide::<Dna, 33, u128>(&mut rep, &mut rng);
    wide::<Dna, 64, u128>(&mut rep, &mut rng);
    wide::<Dna, 32, u64>(&mut rep, &mut rng);
    wide::<Iupac, 17, u128>(&mut rep, &mut rng);
    wide::<Iupac, 32, u128>(&mut rep, &mut rng);
    wide::<Iupac, 16, u64>(&mut rep, &mut rng);
    wide::<Amino, 11, u128>(&mut rep, &mut rng);
    wide::<Amino, 15, u128>(&mut rep, &mut rng);
    wide::<Amino, 21, u128>(&mut rep, &mut rng);
    wide::<Amino, 10, u64>(&mut rep, &mut rng);
    wide::<masked::iupac::Iupac, 13, u128>(&mut rep, &mut rng);
    wide::<masked::iupac::Iupac, 25, u128>(&mut rep, &mut rng);
    wide::<text::Dna, 9, u128>(&mut rep, &mut rng);
    wide::<text::Dna, 16, u128>(&mut rep, &mut rng);
    // the 1-bit codec is the only one whose k-mers can exceed 64 symbols
    wide::<degenerate::dna::Dna, 64, u64>(&mut rep, &mut rng);
    wide::<degenerate::dna::Dna, 65, u128>(&mut rep, &mut rng);
    wide::<degenerate::dna::Dna, 100, u128>(&mut rep, &mut rng);
    wide::<degenerate::dna::Dna, 128, u128>(&mut rep, &mut rng);
    rep
}

// ------------------------------------------------------------------------------------------ C11
/// The std consumers an Iterator impl may override (nth, count, last, size_hint, fold - and skip / step_by / take built on
/// them) must agree with plain repeated next(): `want` is the list obtained by collect().  `make` builds a fresh iterator.
fn adaptors_agree<T: PartialEq + Clone, I: Iterator<Item = T>>(rep: &mut Report, label: &'static str, ctx: &dyn Fn() -> String, want: &[T], make: &dyn Fn() -> I) {
    let n = want.len();
    let mut ok = true;
    let mut why = String::new();
    let mut note = |c: bool, w: &str| { if !c && ok { ok = false; why = w.to_string(); } };
    note(make().count() == n, "count()");
    note(make().last().as_ref() == want.last(), "last()");
    let (lo, hi) = make().size_hint();
    note(lo <= n && hi.map_or(true, |h| h >= n), "size_hint()");
    for k in 0..n + 2 {
        let mut it = make();
        let got = it.nth(k);
        note(got.as_ref() == want.get(k), "nth(k)");
        if k < n {
            // the iterator continues right after the k-th item
            let rest: Vec<T> = it.collect();
            note(rest[..] == want[k + 1..], "items after nth(k)");
        }
        let sk: Vec<T> = make().skip(k).collect();
        note(sk[..] == want[k.min(n)..], "skip(k)");
        let tk: Vec<T> = make().take(k).collect();
        note(tk[..] == want[..k.min(n)], "take(k)");
    }
    for st in 1..5usize.min(n + 2) {
        let sb: Vec<T> = make().step_by(st).collect();
        let ws: Vec<T> = want.iter().step_by(st).cloned().collect();
        note(sb == ws, "step_by(s)");
        let sb2: Vec<T> = make().skip(1).step_by(st).collect();
        let ws2: Vec<T> = want.iter().skip(1).step_by(st).cloned().collect();
        note(sb2 == ws2, "skip(1).step_by(s)");
    }
    let folded = make().fold(0usize, |a, _| a + 1);
    note(folded == n, "fold");
    // a PARTIALLY consumed iterator: every consumer continues from where next() left off
    for k in 0..n + 1 {
        let adv = |mut it: I| { for _ in 0..k { it.next(); } it };
        let rest = &want[k.min(n)..];
        note(adv(make()).count() == rest.len(), "count() after k x next()");
        note(adv(make()).last().as_ref() == rest.last(), "last() after k x next()");
        let mut viaf: Vec<T> = vec![];
        adv(make()).for_each(|x| viaf.push(x));
        note(viaf[..] == *rest, "for_each / fold after k x next()");
        let viafold: Vec<T> = adv(make()).fold(vec![], |mut a, x| { a.push(x); a });
        note(viafold[..] == *rest, "fold after k x next()");
        let (lo, hi) = adv(make()).size_hint();
        note(lo <= rest.len() && hi.map_or(true, |h| h >= rest.len()), "size_hint() after k x next()");
        let mut it = adv(make());
        note(it.nth(1).as_ref() == rest.get(1), "nth(1) after k x next()");
        if k > 8 && k + 8 < n { continue; }
    }
    // exhaustion: None stays None
    let mut it = make();
    for _ in 0..n { it.next(); }
    note(it.next().is_none() && it.next().is_none() && it.nth(0).is_none(), "exhausted iterator keeps returning None");
    rep.expect(ok, label, || format!("{}: {} disagrees with repeated next()", ctx(), why));
}
fn c11_codec<C: Oracle + core::fmt::Debug>(rep: &mut Report, rng: &mut Rng) {
    for n in [0usize, 1, 2, 3, 7, 33, 66, 130] {
        let rows = rand_rows::<C>(rng, n);
        let off = rng.below(15);
        with_offset::<C, _>(&rows, off, &mut Rng::new(rng.next()), |sl| {
            let f: Vec<C> = sl.iter().collect();
            let f2: Vec<C> = sl.into_iter().collect();
            let r: Vec<C> = sl.rev_iter().collect();
            let want: Vec<C> = rows.iter().map(|&x| C::entry(x).sym).collect();
            let mut wr = want.clone();
            wr.reverse();
            rep.case(|| format!("{} n={} off={}", C::NAME, n, off));
            rep.expect(f == want && f2 == want, "C11 forward iteration yields the symbols in order, each once", || format!("{} {}", C::NAME, sl));
            rep.expect(r == wr, "C11 reverse iteration yields the symbols in opposite order", || format!("{} {}", C::NAME, sl));
            let owned = sl.to_owned();
            let f3: Vec<C> = (&owned).into_iter().collect();
            rep.expect(f3 == want, "C11 &Seq iterates like its slice", || format!("{} {}", C::NAME, sl));
            for (how, h) in history_variants::<C>(&rows) {
                let f4: Vec<C> = (&h).into_iter().collect();
                let r4: Vec<C> = h.rev_iter().collect();
                rep.expect(f4 == want && r4 == wr && h.iter().count() == n && h.windows(2).count() == n.saturating_sub(1) && h.chunks(3).count() == n / 3, "C11 iterating an owned sequence does not depend on its history", || format!("{} {} history={}", C::NAME, sl, how));
            }
            for w in 1..n + 3 {
                let ws: Vec<Vec<usize>> = sl.windows(w).map(|x| rows_of::<C>(x)).collect();
                let cs: Vec<Vec<usize>> = sl.chunks(w).map(|x| rows_of::<C>(x)).collect();
                let wantw: Vec<Vec<usize>> = if w <= n { (0..=n - w).map(|i| rows[i..i + w].to_vec()).collect() } else { vec![] };
                let wantc: Vec<Vec<usize>> = (0..n / w).map(|i| rows[i * w..(i + 1) * w].to_vec()).collect();
                rep.expect(ws == wantw, "C11 windows(w) yields the n-w+1 consecutive width-w slices", || format!("{} n={} w={}", C::NAME, n, w));
                rep.expect(cs == wantc, "C11 chunks(w) yields floor(n/w) disjoint slices, tail dropped", || format!("{} n={} w={}", C::NAME, n, w));
                let v: Vec<Seq<C>> = sl.chunks(w).collect();
                rep.expect(v.iter().map(|s| rows_of::<C>(s)).collect::<Vec<_>>() == wantc, "C11 collecting slices into Vec<Seq> copies each", || format!("{} n={} w={}", C::NAME, n, w));
            }
            // std consumers that an Iterator impl may override must agree with repeated next()
            let ctx = || format!("{} n={} off={}", C::NAME, n, off);
            adaptors_agree(rep, "C11 nth / skip / step_by / count / last / size_hint of the symbol iterator agree with next()", &ctx, &want, &|| sl.iter());
            adaptors_agree(rep, "C11 nth / skip / step_by / count / last / size_hint of the reverse iterator agree with next()", &ctx, &wr, &|| sl.rev_iter());
            for w in [1usize, 2, 3, 5] {
                // called on the iterator itself (an adapter such as map would hide an overridden nth)
                let wantw: Vec<&SeqSlice<C>> = if w <= n { (0..=n - w).map(|i| &sl[i..i + w]).collect() } else { vec![] };
                let wantc: Vec<&SeqSlice<C>> = (0..n / w).map(|i| &sl[i * w..(i + 1) * w]).collect();
                adaptors_agree(rep, "C11 nth / skip / step_by / count / last / size_hint of windows(w) agree with next()", &ctx, &wantw, &|| sl.windows(w));
                adaptors_agree(rep, "C11 nth / skip / step_by / count / last / size_hint of chunks(w) agree with next()", &ctx, &wantc, &|| sl.chunks(w));
            }
            let second = build::<C>(&rand_rows::<C>(&mut Rng::new(n as u64), 3));
            let ch: Vec<C> = sl.chain(&second).collect();
            let mut wc = want.clone();
            wc.extend(second.iter());
            rep.expect(ch == wc, "C11 chain yields the first's symbols then the second's", || format!("{} {} + {}", C::NAME, sl, second));
        });
    }
}
fn c11(_tier: &str, seed: u64) -> Report {
    let mut rep = Report::new("C11", "lengths 0,1,2,3,7,33,66 at random offsets, all widths 1..n+2, 7 codecs");
    rep.functions = vec!["SeqSlice::iter (delegation to IntoIterator)", "IntoIterator for &Seq", "SeqSlice::chain (std Chain)", "FromIterator<&SeqSlice> for Vec<Seq>", "std adapters (collect/map) over the verified next()"];
    let mut rng = Rng::new(seed);
    for_codecs!(c11_codec, &mut rep, &mut rng);
    rep
}

// ------------------------------------------------------------------------------------------ C12
fn c12(_tier: &str, seed: u64) -> Report {
    use crate::laws::{iupac_letter, iupac_set};
    let mut rep = Report::new("C12", "all 256 symbol pairs at every position of length-3 sequences (position 0,1,2) at offsets 0,1,7,15; random pairs of length 17,40; all length mismatches 0..4 for contains; SeqArray operands");
    rep.functions = vec!["SeqArray::contains", "operator sugar `&a | &b` on the real crate", "cross-check of the Verus contracts of BitAnd/BitOr/contains"];
    let mut rng = Rng::new(seed);
    let setof = |r: usize| iupac_set(<Iupac as Oracle>::entry(r).ch);
    let row_of_set = |s: u8| <Iupac as Oracle>::expect_ascii(iupac_letter(s)).unwrap();
    for a in 0..16usize {
        for b in 0..16usize {
            for pos in 0..3 {
                let mut x = rand_rows::<Iupac>(&mut rng, 3);
                let mut y = rand_rows::<Iupac>(&mut rng, 3);
                x[pos] = a;
                y[pos] = b;
                let (ox, oy) = ([0usize, 1, 7, 15][rng.below(4)], [0usize, 1, 7, 15][rng.below(4)]);
                let px = { let mut p = rand_rows::<Iupac>(&mut rng, ox); p.extend(&x); build::<Iupac>(&p) };
                let py = { let mut p = rand_rows::<Iupac>(&mut rng, oy); p.extend(&y); build::<Iupac>(&p) };
                let (sx, sy) = (&px[ox..], &py[oy..]);
                rep.case(|| format!("{} | & {}", sx, sy));
                let or = sx | sy;
                let and = sx & sy;
                let wor: Vec<usize> = (0..3).map(|i| row_of_set(setof(x[i]) | setof(y[i]))).collect();
                let wand: Vec<usize> = (0..3).map(|i| row_of_set(setof(x[i]) & setof(y[i]))).collect();
                rep.expect(rows_of::<Iupac>(&or) == wor, "C12 | yields the union's ambiguity code at each position", || format!("{} | {} = {}", sx, sy, or));
                rep.expect(rows_of::<Iupac>(&and) == wand, "C12 & yields the intersection's code (gap for empty)", || format!("{} & {} = {}", sx, sy, and));
                rep.expect(sx.to_owned().bit_or(sy.to_owned()) == or && sx.to_owned().bit_and(sy.to_owned()) == and, "C12 owned operands give the same result", || format!("{} {}", sx, sy));
                if a % 4 == 0 && b % 4 == 1 {
                    for (how, hx) in history_variants::<Iupac>(&x) {
                        for (how2, hy) in history_variants::<Iupac>(&y).into_iter().take(3) {
                            let ok = hx.clone().bit_or(hy.clone()) == or && hx.clone().bit_and(hy.clone()) == and && (&hx[..] | &hy[..]) == or && (&hx[..] & &hy[..]) == and
                                && hx.contains(&hy) == sx.contains(sy) && (&hx[..]).contains(&hy) == sx.contains(sy);
                            rep.expect(ok, "C12 set operations on owned sequences do not depend on their history", || format!("{} ({}) vs {} ({})", hx, how, hy, how2));
                        }
                    }
                }
                let sub = (0..3).all(|i| setof(y[i]) & setof(x[i]) == setof(y[i]));
                rep.expect(sx.contains(sy) == sub && sx.to_owned().contains(sy) == sub, "C12 contains <=> every position of the argument is a subset", || format!("{} contains {}", sx, sy));
                // the third receiver type: a hand-built static-style array (the literal macros hand out slices, so this impl is
                // only reached through a SeqArray value)
                let arr: bio_seq::seq::SeqArray<Iupac, 3, 1> = bio_seq::seq::SeqArray { _p: core::marker::PhantomData, ba: bitvec::array::BitArray::new([build::<Iupac>(&x).into_raw()[0]]) };
                rep.expect(arr.contains(sy) == sub && arr.contains(&sy.to_owned()) == sub && !arr.contains(&sy[..2]) && rows_of::<Iupac>(&arr) == x, "C12 contains on a SeqArray receiver <=> every position of the argument is a subset", || format!("SeqArray {} contains {}", sx, sy));
            }
        }
    }
    // longer operands: every length around the 16-symbol word, slices at offsets, a subset argument (contains must be true),
    // a random argument, owned and borrowed receivers
    for n in [1usize, 2, 15, 16, 17, 31, 32, 33, 40, 48, 63, 64, 65, 130, 1030] {
        for off in [0usize, 1, 7, 16] {
            let x = rand_rows::<Iupac>(&mut rng, n);
            let y = rand_rows::<Iupac>(&mut rng, n);
            let sub: Vec<usize> = (0..n).map(|i| row_of_set(setof(x[i]) & setof(y[i]))).collect();
            let px = { let mut p = rand_rows::<Iupac>(&mut rng, off); p.extend(&x); build::<Iupac>(&p) };
            let py = { let mut p = rand_rows::<Iupac>(&mut rng, (off * 3) % 17); p.extend(&y); build::<Iupac>(&p) };
            let (sx, sy) = (&px[off..], &py[(off * 3) % 17..]);
            let ssub = build::<Iupac>(&sub);
            rep.case(|| format!("long operands n={} off={}", n, off));
            let wor: Vec<usize> = (0..n).map(|i| row_of_set(setof(x[i]) | setof(y[i]))).collect();
            rep.expect(rows_of::<Iupac>(&(sx | sy)) == wor && rows_of::<Iupac>(&(sx & sy)) == sub, "C12 | and & on long operands at offsets", || format!("n={} off={}", n, off));
            let want = (0..n).all(|i| setof(y[i]) & setof(x[i]) == setof(y[i]));
            rep.expect(sx.contains(&ssub) && sx.to_owned().contains(&ssub) && sx.contains(sy) == want && sx.to_owned().contains(sy) == want && sx.contains(sx) && !sx.contains(&sy[..n - 1]),
                "C12 contains <=> every position of the argument is a subset", || format!("long: n={} off={} {} contains {} / {}", n, off, sx, ssub, sy));
        }
    }
    for la in 0..5usize {
        for lb in 0..5usize {
            let x = build::<Iupac>(&vec![14; la]); // N
            let y = build::<Iupac>(&vec![0; lb]); // A
            rep.case(|| format!("contains lengths {} {}", la, lb));
            rep.expect(x.contains(&y) == (la == lb) && (&x[..]).contains(&y) == (la == lb), "C12 contains is false for every length mismatch", || format!("{} contains {}", x, y));
        }
    }
    rep.expect(iupac!("ANY").contains(iupac!("ACT")) && !iupac!("ANY").contains(iupac!("ACG")) && !iupac!("ANY").contains(iupac!("AC")), "C12 SeqArray::contains", || "ANY".into());
    rep
}

// ------------------------------------------------------------------------------------------ C13
fn c13(_tier: &str, seed: u64) -> Report {
    use bio_seq::translation::{TranslationTable, STANDARD};
    let mut rep = Report::new("C13", "all 64 codons x all 32 base offsets inside a word (incl. straddling two words); random DNA of length 40,99 translated by windows(3)/chunks(3)");
    rep.functions = vec!["STANDARD.to_amino through windows(3)/chunks(3) adapters on the real crate"];
    let mut rng = Rng::new(seed);
    for c in 0..64u8 {
        for off in 0..32usize {
            let rows = vec![(c & 3) as usize, ((c >> 2) & 3) as usize, ((c >> 4) & 3) as usize];
            with_offset::<Dna, _>(&rows, off + 16, &mut Rng::new(rng.next()), |sl| {
                rep.case(|| format!("codon {} off={}", sl, off + 16));
                rep.expect(STANDARD.to_amino(sl).to_char() == ncbi_amino(c) as char, "C13 to_amino is NCBI table 1 for every codon at every offset", || format!("{} off={} -> {}", sl, off + 16, STANDARD.to_amino(sl).to_char()));
            });
        }
    }
    for n in [40usize, 99, 1027, 70_002] {
        let rows = rand_rows::<Dna>(&mut rng, n);
        let s = build::<Dna>(&rows);
        let code = |i: usize| (rows[i] | rows[i + 1] << 2 | rows[i + 2] << 4) as u8;
        let w: String = s.windows(3).map(|c| STANDARD.to_amino(c).to_char()).collect();
        let ww: String = (0..n - 2).map(|i| ncbi_amino(code(i)) as char).collect();
        let c: String = s.chunks(3).map(|c| STANDARD.to_amino(c).to_char()).collect();
        let cw: String = (0..n / 3).map(|i| ncbi_amino(code(3 * i)) as char).collect();
        rep.case(|| format!("translate {}", s));
        rep.expect(w == ww && c == cw, "C13 translating by windows / chunks gives the translation of each triplet", || format!("{}", s));
        // reading frames and random access: the k-th window / chunk is the k-th triplet however the iterator is consumed
        for f in 0..3usize {
            let frame: String = s.windows(3).skip(f).step_by(3).map(|c| STANDARD.to_amino(c).to_char()).collect();
            let wf: String = (f..n - 2).step_by(3).map(|i| ncbi_amino(code(i)) as char).collect();
            rep.expect(frame == wf, "C13 reading frame f by windows(3).skip(f).step_by(3) translates triplets f, f+3, ...", || format!("frame {} of {}", f, s));
        }
        // a partially consumed iterator (start codon checked with next(), the rest translated through fold-based consumers)
        for skipn in [1usize, 2, 5] {
            let mut it = s.chunks(3);
            let mut wi = s.windows(3);
            for _ in 0..skipn { it.next(); wi.next(); }
            let rest: Seq<Amino> = it.map(|c| STANDARD.to_amino(c)).collect();
            let mut viaw = String::new();
            wi.for_each(|c| viaw.push(STANDARD.to_amino(c).to_char()));
            let wantc: String = (skipn..n / 3).map(|i| ncbi_amino(code(3 * i)) as char).collect();
            let wantw: String = (skipn..n - 2).map(|i| ncbi_amino(code(i)) as char).collect();
            rep.expect(rest.to_string() == wantc && viaw == wantw, "C13 translating the rest of a partially consumed windows / chunks iterator gives the remaining triplets", || format!("after {} x next() of {}", skipn, s));
        }
        // last() / count() on lengths that are not a multiple of three: the last chunk is the last IN-FRAME triplet
        for cut in 0..3usize {
            let sub = &s[..n - cut];
            let m = n - cut;
            let lastc = sub.chunks(3).last().map(|c| STANDARD.to_amino(c).to_char());
            let lastw = sub.windows(3).last().map(|c| STANDARD.to_amino(c).to_char());
            rep.expect(lastc == Some(ncbi_amino(code(3 * (m / 3 - 1))) as char) && lastw == Some(ncbi_amino(code(m - 3)) as char) && sub.chunks(3).count() == m / 3 && sub.windows(3).count() == m - 2,
                "C13 the last chunk / window reached by last() is the last in-frame triplet", || format!("len {} of {}", m, s));
        }
        for k in [0usize, 1, 2, 7, n / 3 - 1, n / 3, n - 3, n - 2] {
            let a = s.windows(3).nth(k).map(|c| STANDARD.to_amino(c).to_char());
            let b = s.chunks(3).nth(k).map(|c| STANDARD.to_amino(c).to_char());
            rep.expect(a == if k + 3 <= n { Some(ncbi_amino(code(k)) as char) } else { None } && b == if 3 * k + 3 <= n { Some(ncbi_amino(code(3 * k)) as char) } else { None },
                "C13 the k-th window / chunk reached by nth(k) is the k-th triplet", || format!("k={} of {}", k, s));
        }
    }
    rep.expect(caught(|| STANDARD.to_amino(dna!("AC"))).is_none() && caught(|| STANDARD.to_amino(dna!("ACGT"))).is_none(), "C13 codons of another length are refused", || "AC / ACGT".into());
    rep
}

// ------------------------------------------------------------------------------------------ C19
fn c19_trim<C: Oracle>(rep: &mut Report, thorough: bool) {
    let valid: Vec<u8> = (0..=255u8).filter(|&b| C::expect_ascii(b).is_some()).collect();
    let invalid: Vec<u8> = [b'x', 0x80, b'\n', b'J'].iter().copied().filter(|&b| C::expect_ascii(b).is_none()).take(2).collect();
    let alpha = vec![valid[0], valid[valid.len() - 1], invalid[0], invalid[1]];
    let mut inputs = all_strings(&alpha, if thorough { 6 } else { 5 });
    // every byte value as padding / interior byte around acceptable bytes
    let (v0, v1) = (valid[0], valid[valid.len() - 1]);
    for b in 0..=255u8 {
        inputs.push(vec![b]);
        inputs.push(vec![b, v0]);
        inputs.push(vec![v0, b]);
        inputs.push(vec![b, v1, b]);
        inputs.push(vec![v0, b, v1]);
        inputs.push(vec![b, b, v0, v1, b]);
    }
    for bytes in inputs {
        rep.case(|| format!("trim {} {}", C::NAME, show(&bytes)));
        let first = bytes.iter().position(|&b| C::expect_ascii(b).is_some());
        let last = bytes.iter().rposition(|&b| C::expect_ascii(b).is_some());
        let span: &[u8] = match (first, last) {
            (Some(a), Some(b)) => &bytes[a..=b],
            _ => &[],
        };
        let want = Seq::<C>::try_from(span);
        let got = Seq::<C>::trim_u8(&bytes);
        rep.expect(got == want, "C19 trim_u8 equals strict parsing of the span between the first and last acceptable byte", || format!("{} {} got {:?} want {:?}", C::NAME, show(&bytes), got.as_ref().map(|s| s.to_string()), want.as_ref().map(|s| s.to_string())));
        if span.is_empty() {
            rep.expect(matches!(&got, Ok(s) if s.is_empty()), "C19 an input with no acceptable byte gives the empty sequence", || show(&bytes));
        }
    }
}
fn c19(tier: &str, seed: u64) -> Report {
    let mut rep = Report::new("C19", "all byte strings of length <= 5 (thorough 6) over {2 acceptable, 2 unacceptable} per codec for trim_u8; DNA sequences of length 0..6 exhaustively (4^n) + 33,70 random, slices at offsets, static literals, for conversion");
    rep.functions = vec!["Seq::trim_u8 (position/rposition closures)", "From<&SeqSlice<A>> / From<&SeqArray> / From<SeqArray> for Seq<B> (iter().map(Into::into).collect())"];
    let mut rng = Rng::new(seed);
    let th = tier == "thorough";
    for_codecs!(c19_trim, &mut rep, th);
    let mut all: Vec<Vec<usize>> = vec![];
    for n in 0..=(if th { 6 } else { 5 }) {
        for v in 0..4usize.pow(n as u32) {
            all.push((0..n).map(|i| (v >> (2 * i)) & 3).collect());
        }
    }
    all.push(rand_rows::<Dna>(&mut rng, 33));
    all.push(rand_rows::<Dna>(&mut rng, 70));
    all.push(rand_rows::<Dna>(&mut rng, 1025));
    all.push(rand_rows::<Dna>(&mut rng, 4099));
    for rows in &all {
        let off = rng.below(9);
        with_offset::<Dna, _>(rows, off, &mut Rng::new(rng.next()), |sl| {
            rep.case(|| format!("convert {}", sl));
            let i: Seq<Iupac> = Seq::from(sl);
            let t: Seq<text::Dna> = Seq::from(sl);
            rep.expect(i.len() == sl.len() && i.to_string() == sl.to_string(), "C19 DNA -> IUPAC keeps length and letters", || format!("{} -> {}", sl, i));
            rep.expect(t.len() == sl.len() && t.to_string() == sl.to_string(), "C19 DNA -> text keeps length and letters", || format!("{} -> {}", sl, t));
            if rows.len() > 3 {
                for (how, h) in history_variants::<Dna>(rows) {
                    let hi: Seq<Iupac> = Seq::from(&h[..]);
                    let ht: Seq<text::Dna> = Seq::from(&h[..]);
                    rep.expect(hi == i && ht == t, "C19 converting an owned sequence does not depend on its history", || format!("{} history={}", sl, how));
                }
            }
        });
    }
    let lit = dna!("ACGTTGCAACGT");
    let i: Seq<Iupac> = lit.into();
    let i2: Seq<Iupac> = Seq::from(lit);
    rep.expect(i.to_string() == "ACGTTGCAACGT" && i2 == i, "C19 static literal converts with the same letters", || "ACGTTGCAACGT".into());
    rep
}

// ------------------------------------------------------------------------------------------ C10
fn colex_cmp(a: &[usize], b: &[usize]) -> std::cmp::Ordering {
    for i in (0..a.len()).rev() {
        if a[i] != b[i] {
            return a[i].cmp(&b[i]);
        }
    }
    std::cmp::Ordering::Equal
}
fn bit_lex_cmp(a: &[usize], b: &[usize], w: usize) -> std::cmp::Ordering {
    // bit 0 of symbol 0 first
    for i in 0..a.len() {
        for j in 0..w {
            let (x, y) = ((a[i] >> j) & 1, (b[i] >> j) & 1);
            if x != y {
                return x.cmp(&y);
            }
        }
    }
    std::cmp::Ordering::Equal
}
fn c10_min<const K: usize>(rep: &mut Report, rng: &mut Rng) {
    for n in [K, K + 1, K + 7, 50] {
        let rows = rand_rows::<Dna>(rng, n);
        let s = build::<Dna>(&rows);
        rep.case(|| format!("min K={} {}", K, s));
        let mn = s.kmers::<K>().min().unwrap();
        let mx = s.kmers::<K>().max().unwrap();
        let mut best = &rows[0..K];
        let mut worst = &rows[0..K];
        for i in 0..=n - K {
            if colex_cmp(&rows[i..i + K], best) == std::cmp::Ordering::Less {
                best = &rows[i..i + K];
            }
            if colex_cmp(&rows[i..i + K], worst) == std::cmp::Ordering::Greater {
                worst = &rows[i..i + K];
            }
        }
        rep.expect(rows_of::<Dna>(&*mn) == best && rows_of::<Dna>(&*mx) == worst, "C10 min/max over a sequence's k-mers is its colexicographic minimiser/maximiser", || format!("K={} {} min={} max={}", K, s, mn, mx));
        let mut sorted: Vec<Kmer<Dna, K>> = s.kmers::<K>().collect();
        sorted.sort();
        let ok = sorted.windows(2).all(|p| colex_cmp(&rows_of::<Dna>(&*p[0]), &rows_of::<Dna>(&*p[1])) != std::cmp::Ordering::Greater);
        rep.expect(ok, "C10 sorting k-mers sorts them colexicographically", || format!("K={} {}", K, s));
    }
}
/// ordering of word-backed k-mers over ANY codec width (5- and 6-bit symbols do not divide the word): pairs that differ in exactly
/// one symbol at every position (the first symbol sits in the LOWEST bits), random pairs, and the minimiser of a sequence
fn c10_codec<C: Oracle + Ord, const K: usize>(rep: &mut Report, rng: &mut Rng) {
    use std::cmp::Ordering;
    let code = |r: usize| C::entry(r).code as usize;
    let codes = |rows: &[usize]| -> Vec<usize> { rows.iter().map(|&r| code(r)).collect() };
    let mk = |rows: &[usize]| -> Option<Kmer<C, K>> { Kmer::try_from(&build::<C>(rows)[..]).ok() };
    let mut pairs: Vec<(Vec<usize>, Vec<usize>)> = vec![];
    for _ in 0..4 {
        let base = rand_rows::<C>(rng, K);
        for pos in [0, K / 2, K - 1] {
            for _ in 0..3 {
                let mut other = base.clone();
                other[pos] = rng.below(C::len());
                pairs.push((base.clone(), other));
            }
            // neighbouring codes at that position (difference in the lowest bit of the symbol)
            let mut other = base.clone();
            other[pos] = (0..C::len()).find(|&r| code(r) == code(base[pos]) ^ 1).unwrap_or(base[pos]);
            pairs.push((base.clone(), other));
        }
        pairs.push((base.clone(), rand_rows::<C>(rng, K)));
        pairs.push((base.clone(), base));
    }
    for (a, b) in pairs {
        let (ka, kb) = match (mk(&a), mk(&b)) { (Some(x), Some(y)) => (x, y), _ => { rep.expect(false, "C10 a k-mer is built from K symbols", || format!("{} K={}", C::NAME, K)); continue; } };
        rep.case(|| format!("{} K={} {} vs {}", C::NAME, K, ka, kb));
        let want = colex_cmp(&codes(&a), &codes(&b));
        rep.expect(ka.cmp(&kb) == want && ka.cmp(&kb) == ka.bs.cmp(&kb.bs) && kb.cmp(&ka) == want.reverse() && ka.partial_cmp(&kb) == Some(want)
            && (ka < kb) == (want == Ordering::Less) && (ka <= kb) == (want != Ordering::Greater) && ((ka.cmp(&kb) == Ordering::Equal) == (ka == kb)) && ((ka == kb) == (codes(&a) == codes(&b))),
            "C10 k-mers of every codec width order by the packed integer = colexicographically (last symbol most significant), consistently with equality",
            || format!("{} K={} {} (bs {:#x}) vs {} (bs {:#x}): got {:?}, want {:?}", C::NAME, K, ka, ka.bs, kb, kb.bs, ka.cmp(&kb), want));
    }
    for n in [K + 3, K + 9] {
        let rows = rand_rows::<C>(rng, n);
        let s = build::<C>(&rows);
        rep.case(|| format!("{} min K={} {}", C::NAME, K, s));
        let (mn, mx) = (s.kmers::<K>().min().unwrap(), s.kmers::<K>().max().unwrap());
        let (mut best, mut worst) = (codes(&rows[0..K]), codes(&rows[0..K]));
        for i in 0..=n - K {
            let w = codes(&rows[i..i + K]);
            if colex_cmp(&w, &best) == Ordering::Less { best = w.clone(); }
            if colex_cmp(&w, &worst) == Ordering::Greater { worst = w; }
        }
        rep.expect(codes(&rows_of::<C>(&*mn)) == best && codes(&rows_of::<C>(&*mx)) == worst, "C10 min/max over a sequence's k-mers is its colexicographic minimiser/maximiser (every codec width)", || format!("{} K={} {} min={} max={}", C::NAME, K, s, mn, mx));
    }
}
fn c10(_tier: &str, seed: u64) -> Report {
    let mut rep = Report::new("C10", "all pairs of equal-length DNA sequences of length 1..3 (exhaustive) and IUPAC of length 1..2; min/max/sort of k-mers K in {1,3,8,31} over random sequences; word-backed k-mers of every ORDERABLE codec (Dna 2, text 8, masked Dna 4, masked Iupac 5, degenerate 1 bit - Iupac and Amino symbols have no Ord; K = 1 .. the largest that fits): pairs differing in one symbol at the first / middle / last position (also in the lowest bit of that symbol), random pairs, min/max of a sequence");
    rep.functions = vec!["derived Ord on Seq (bitvec Ord for BitVec)", "Iterator::min/max/sort over kmers()"];
    let mut rng = Rng::new(seed);
    for n in 1..=3usize {
        for va in 0..4usize.pow(n as u32) {
            for vb in 0..4usize.pow(n as u32) {
                let a: Vec<usize> = (0..n).map(|i| (va >> (2 * i)) & 3).collect();
                let b: Vec<usize> = (0..n).map(|i| (vb >> (2 * i)) & 3).collect();
                let (sa, sb) = (build::<Dna>(&a), build::<Dna>(&b));
                rep.case(|| format!("{} vs {}", sa, sb));
                rep.expect(sa.cmp(&sb) == colex_cmp(&a, &b), "C10 equal-length owned sequences order colexicographically like k-mers", || format!("Seq {} vs Seq {}: got {:?}, k-mers order {:?}", sa, sb, sa.cmp(&sb), colex_cmp(&a, &b)));
                rep.expect(sa.cmp(&sb) == bit_lex_cmp(&a, &b, 2), "F8 behaviour: Seq order is lexicographic on the packed bits (symbol 0 first, low bit first)", || format!("{} vs {}", sa, sb));
                rep.expect((sa.cmp(&sb) == std::cmp::Ordering::Equal) == (sa == sb) && sa.partial_cmp(&sb) == Some(sa.cmp(&sb)), "C10 Seq order is consistent with equality", || format!("{} vs {}", sa, sb));
            }
        }
    }
    c10_min::<1>(&mut rep, &mut rng);
    c10_min::<3>(&mut rep, &mut rng);
    c10_min::<8>(&mut rep, &mut rng);
    c10_min::<31>(&mut rep, &mut rng);
    c10_min::<32>(&mut rep, &mut rng);
    c10_codec::<Dna, 1>(&mut rep, &mut rng); c10_codec::<Dna, 7>(&mut rep, &mut rng);
    // (Iupac and Amino symbols do not implement Ord in the repository, so their k-mers are not orderable)
    c10_codec::<text::Dna, 1>(&mut rep, &mut rng); c10_codec::<text::Dna, 8>(&mut rep, &mut rng);
    c10_codec::<masked::iupac::Iupac, 1>(&mut rep, &mut rng); c10_codec::<masked::iupac::Iupac, 3>(&mut rep, &mut rng); c10_codec::<masked::iupac::Iupac, 12>(&mut rep, &mut rng);
    c10_codec::<masked::dna::Dna, 4>(&mut rep, &mut rng); c10_codec::<masked::dna::Dna, 16>(&mut rep, &mut rng);
    c10_codec::<degenerate::dna::Dna, 1>(&mut rep, &mut rng); c10_codec::<degenerate::dna::Dna, 7>(&mut rep, &mut rng); c10_codec::<degenerate::dna::Dna, 64>(&mut rep, &mut rng);
    // pairs of k-mers at full storage width and around the top bit, every storage type
    let edge: [u128; 10] = [0, 1, 2, (1 << 62) - 1, 1 << 62, (1 << 63) - 1, 1 << 63, (1 << 63) + 1, u64::MAX as u128 - 1, u64::MAX as u128];
    let mut vals: Vec<u128> = edge.to_vec();
    for _ in 0..40 {
        vals.push(rng.next() as u128);
    }
    for &a in &vals {
        for &b in &vals {
            rep.case(|| format!("order {:#x} vs {:#x}", a, b));
            let (ka, kb): (Kmer<Dna, 32>, Kmer<Dna, 32>) = (Kmer::from(a as usize), Kmer::from(b as usize));
            let want = (a as usize).cmp(&(b as usize));
            let (lt, gt) = (want == std::cmp::Ordering::Less, want == std::cmp::Ordering::Greater);
            rep.expect((ka <= kb) == !gt && (ka > kb) == gt && (ka >= kb) == !lt && (ka != kb) == (a as usize != b as usize)
                && std::cmp::max(ka, kb).bs == (a as usize).max(b as usize) && std::cmp::min(ka, kb).bs == (a as usize).min(b as usize)
                && Ord::max(ka, kb).bs == (a as usize).max(b as usize) && Ord::min(ka, kb).bs == (a as usize).min(b as usize)
                && (if ka <= kb { Kmer::<Dna, 32>::from(0usize).clamp(ka, kb).bs == a as usize } else { true }),
                "C10 the comparison operators, min, max and clamp of k-mers agree with cmp", || format!("Kmer<Dna,32> {:#x} vs {:#x}", a, b));
            rep.expect(ka.cmp(&kb) == want && ka.partial_cmp(&kb) == Some(want) && (ka < kb) == (want == std::cmp::Ordering::Less) && (ka == kb) == (a == b),
                "C10 full-width k-mers (K*BITS = 64) order by the packed integer, consistently with equality", || format!("Kmer<Dna,32> {:#x} vs {:#x}: {:?}", a, b, ka.cmp(&kb)));
            let (va, vb) = (a | (b << 64), b | (a << 64));
            let m80 = (1u128 << 80) - 1;
            // ordering of k-mers on wide storage; compiled out (cfg no_wide_ord, set by the driver on a retry) when the tree under
            // test no longer implements Ord for u64 / u128-backed k-mers, so that the word-sized checks above still run
            #[cfg(not(no_wide_ord))]
            {
            let (ua, ub): (Kmer<Dna, 32, u64>, Kmer<Dna, 32, u64>) = (Kmer::from(a as u64), Kmer::from(b as u64));
            rep.expect(ua.cmp(&ub) == (a as u64).cmp(&(b as u64)), "C10 u64-backed full-width k-mers order by the packed integer", || format!("{:#x} vs {:#x}", a, b));
            let (wa, wb) = (a | (a << 64), b | (b << 64));
            let xa: Kmer<Dna, 64, u128> = Kmer { _p: core::marker::PhantomData, bs: wa };
            let xb: Kmer<Dna, 64, u128> = Kmer { _p: core::marker::PhantomData, bs: wb };
            rep.expect(xa.cmp(&xb) == wa.cmp(&wb), "C10 u128-backed full-width k-mers order by the packed integer", || format!("{:#x} vs {:#x}", wa, wb));
            // low and high word chosen independently (the two words order in opposite directions for half the pairs): the
            // high word, i.e. the LAST symbols, must decide
            let ya: Kmer<Dna, 64, u128> = Kmer { _p: core::marker::PhantomData, bs: va };
            let yb: Kmer<Dna, 64, u128> = Kmer { _p: core::marker::PhantomData, bs: vb };
            rep.expect(ya.cmp(&yb) == va.cmp(&vb) && ya.partial_cmp(&yb) == Some(va.cmp(&vb)) && (ya == yb) == (va == vb) && (ya < yb) == (va < vb),
                "C10 u128-backed k-mers spanning two words order by the packed integer (last symbols most significant)", || format!("{:#x} vs {:#x}: {:?}", va, vb, ya.cmp(&yb)));
            let za: Kmer<Dna, 40, u128> = Kmer { _p: core::marker::PhantomData, bs: va & m80 };
            let zb: Kmer<Dna, 40, u128> = Kmer { _p: core::marker::PhantomData, bs: vb & m80 };
            rep.expect(za.cmp(&zb) == (va & m80).cmp(&(vb & m80)), "C10 u128-backed 40-mers order by the packed integer", || format!("{:#x} vs {:#x}: {:?}", va & m80, vb & m80, za.cmp(&zb)));
            }
            let ia: Kmer<Iupac, 20, u128> = Kmer { _p: core::marker::PhantomData, bs: va & m80 };
            let ib: Kmer<Iupac, 20, u128> = Kmer { _p: core::marker::PhantomData, bs: vb & m80 };
            rep.expect((ia == ib) == (va & m80 == vb & m80), "C10 u128-backed IUPAC k-mers: equality is equality of the packed integer", || format!("{:#x} vs {:#x}", va & m80, vb & m80));
            let (ta, tb): (Kmer<text::Dna, 8>, Kmer<text::Dna, 8>) = (Kmer::from(a as usize), Kmer::from(b as usize));
            rep.expect(ta.cmp(&tb) == (a as usize).cmp(&(b as usize)), "C10 8-bit k-mers at full width order by the packed integer", || format!("{:#x} vs {:#x}", a, b));
        }
    }
    rep
}

// ------------------------------------------------------------------------------------------ C14
fn c14(_tier: &str, seed: u64) -> Report {
    use crate::laws::iupac_set;
    use bio_seq::translation::{PartialTranslationTable, TranslationError, TranslationTable, STANDARD};
    let mut rep = Report::new("C14", "EXHAUSTIVE on the real code (finite domain): all 16^3 IUPAC codons (no panic; 15^3 gap-free ones for soundness/completeness against all their concrete DNA codons), each also as a slice at symbol offsets 1 and 15; every length 0..18 but 3 and 30, 33, 48, 63, 64, 66, 129 (random content and repeated GCN triplets, owned and as slices of a longer parent) must be reported as an invalid codon; all 21 amino symbols for reverse translation against all 15^3 gap-free patterns");
    rep.functions = vec!["STANDARD.try_to_amino / try_to_codon on the real statics (cross-check of rules R15/R16: the OnceLock tables hold the rows written in the source, iupac! literals parse as written)"];
    let mut rng = Rng::new(seed);
    let masks = |r: usize| iupac_set(<Iupac as Oracle>::entry(r).ch);
    let bases = |m: u8| -> Vec<usize> { (0..4).filter(|&b| m & (8 >> b) != 0).collect() }; // Dna rows A,C,G,T
    let translate = |x: usize, y: usize, z: usize| STANDARD.to_amino(&build::<Dna>(&[x, y, z])).to_char();
    for a in 0..16usize {
        for b in 0..16usize {
            for c in 0..16usize {
                let rows = [a, b, c];
                let s = build::<Iupac>(&rows);
                rep.case(|| format!("{}", s));
                let got = match caught(|| STANDARD.try_to_amino(&s)) {
                    Some(g) => g,
                    None => { rep.expect(false, "C14 try_to_amino never panics on a 3-symbol codon", || format!("{}", s)); continue; }
                };
                for off in [1usize, 15] {
                    with_offset::<Iupac, _>(&rows, off, &mut Rng::new(rng.next()), |sl| {
                        rep.expect(STANDARD.try_to_amino(sl) == got, "C14 same answer whatever slice presents the codon", || format!("{} off={}", sl, off));
                    });
                }
                if [a, b, c].iter().all(|&r| masks(r) != 0) {
                    let mut aminos = std::collections::BTreeSet::new();
                    for x in bases(masks(a)) { for y in bases(masks(b)) { for z in bases(masks(c)) { aminos.insert(translate(x, y, z)); } } }
                    match &got {
                        Ok(x) => rep.expect(aminos.len() == 1 && aminos.contains(&x.to_char()), "C14 translation returns X only when every concrete codon codes for X (soundness)", || format!("{} -> {} but concrete codons code for {:?}", s, x.to_char(), aminos)),
                        Err(TranslationError::AmbiguousTranslation(c)) => rep.expect(aminos.len() > 1 && *c == s, "C14 ambiguity is reported only when the concrete codons disagree (completeness)", || format!("{} ambiguous but all concrete codons code for {:?}", s, aminos)),
                        Err(e) => rep.expect(false, "C14 a 3-symbol codon is translated or reported ambiguous", || format!("{} -> {:?}", s, e)),
                    }
                }
            }
        }
    }
    // every length but 3, including whole numbers of triplets (6, 9, 12, ...), word-sized and longer; random content,
    // repeated fourfold-degenerate codons (GCN GCN: each triplet alone translates) and slices of a longer parent
    let gcn: Vec<usize> = "GCN".bytes().map(|b| <Iupac as Oracle>::expect_ascii(b).unwrap()).collect();
    for n in (0usize..=18).filter(|&n| n != 3).chain([30, 33, 48, 63, 64, 66, 129]) {
        let mut variants = vec![rand_rows::<Iupac>(&mut rng, n)];
        variants.push((0..n).map(|i| gcn[i % 3]).collect());
        for rows in variants {
            let s = build::<Iupac>(&rows);
            rep.case(|| format!("length {}", n));
            let got = STANDARD.try_to_amino(&s);
            rep.expect(matches!(&got, Err(TranslationError::InvalidCodon(c)) if *c == s), "C14 codons of any other length are reported invalid", || format!("length {} {} -> {:?}", n, s, got.as_ref().map(|a| a.to_char())));
            with_offset::<Iupac, _>(&rows, 1 + rng.below(20), &mut Rng::new(rng.next()), |sl| {
                let got = STANDARD.try_to_amino(sl);
                rep.expect(matches!(&got, Err(TranslationError::InvalidCodon(c)) if c.to_string() == sl.to_string()), "C14 codons of any other length are reported invalid", || format!("length {} slice {} -> {:?}", n, sl, got.as_ref().map(|a| a.to_char())));
            });
        }
    }
    // reverse translation: exact pattern or ambiguity
    let codons_of = |letter: char| -> std::collections::BTreeSet<(usize, usize, usize)> {
        let mut v = std::collections::BTreeSet::new();
        for x in 0..4 { for y in 0..4 { for z in 0..4 { if translate(x, y, z) == letter { v.insert((x, y, z)); } } } }
        v
    };
    for k in 0..<Amino as Oracle>::len() {
        let am = <Amino as Oracle>::entry(k).sym;
        let want = codons_of(am.to_char());
        rep.case(|| format!("reverse {}", am.to_char()));
        // is there a single gap-free pattern matching all and only `want`?
        let mut exact: Vec<[usize; 3]> = vec![];
        for a in 0..15usize { for b in 0..15usize { for c in 0..15usize {
            let mut got = std::collections::BTreeSet::new();
            for x in bases(masks(a)) { for y in bases(masks(b)) { for z in bases(masks(c)) { got.insert((x, y, z)); } } }
            if got == want { exact.push([a, b, c]); }
        } } }
        match STANDARD.try_to_codon(am) {
            Ok(p) => {
                rep.expect(exact.len() == 1 && rows_of::<Iupac>(&p) == exact[0], "C14 reverse translation returns the codon that matches all and only the coding DNA codons", || format!("{} -> {} exact={:?}", am.to_char(), p, exact));
                rep.expect(STANDARD.try_to_amino(&p) == Ok(am), "C14 the reverse-translated codon translates back", || format!("{} -> {}", am.to_char(), p));
            }
            Err(TranslationError::AmbiguousCodon(x)) => rep.expect(exact.is_empty() && x == am, "C14 reverse translation reports ambiguity only when no single codon is exact", || format!("{} exact={:?}", am.to_char(), exact)),
            Err(e) => rep.expect(false, "C14 reverse translation returns a codon or reports ambiguity", || format!("{} -> {:?}", am.to_char(), e)),
        }
    }
    rep
}

// ------------------------------------------------------------------------------------------ C15
fn c15_codec<C: Oracle>(rep: &mut Report, rng: &mut Rng, rounds: usize) {
    use bio_seq::translation::{CodonTable, PartialTranslationTable, TranslationError};
    for round in 0..rounds {
        // a random finite map from codons (length 1..4) to amino symbols with 0,1,2,3+ preimages
        let nkeys = rng.below(9);
        let mut model: Vec<(Vec<usize>, usize)> = vec![];
        for _ in 0..nkeys {
            let len = 1 + rng.below(4);
            let rows = rand_rows::<C>(rng, len);
            let canon: Vec<usize> = rows.iter().map(|&r| C::expect_ascii(C::entry(r).ch).unwrap()).collect();
            let a = rng.below(5); // few amino symbols so that collisions happen
            if !model.iter().any(|(k, _)| *k == canon) {
                model.push((canon, a));
            }
        }
        // repeated construction: std HashMap uses a fresh random state each time => different iteration orders
        for rep_i in 0..3 {
            let mut m: HashMap<Seq<C>, Amino> = HashMap::new();
            for (k, a) in &model {
                m.insert(build::<C>(k), <Amino as Oracle>::entry(*a).sym);
            }
            let t: CodonTable<C, Amino> = CodonTable::from_map(m);
            rep.case(|| format!("{} round={} rep={} keys={}", C::NAME, round, rep_i, model.len()));
            // forward lookups: keys (as slices at offsets) and non-keys
            for (k, a) in &model {
                // offsets inside the first word, at and across the first and second word boundary (a codon of 2..4 symbols
                // whose bits straddle two storage words), and far into a long sequence
                let wb = 64 / C::BITS as usize;
                let offs = [rng.below(7), wb - 1, wb, wb.saturating_sub(2), 2 * wb - 1, 2 * wb + 1, 200 + rng.below(40)];
                for &off in &offs[..if rep_i == 0 { 7 } else { 3 }] {
                    with_offset::<C, _>(k, off, &mut Rng::new(rng.next()), |sl| {
                        let got = t.try_to_amino(sl);
                        rep.expect(got == Ok(<Amino as Oracle>::entry(*a).sym), "C15 a key codon translates to exactly the mapped amino acid, whatever slice presents it", || format!("{} {} off={} got {:?}", C::NAME, sl, off, got.as_ref().map(|x| x.to_char())));
                    });
                }
                let owned = build::<C>(k);
                rep.expect(t.try_to_amino(&owned) == Ok(<Amino as Oracle>::entry(*a).sym) && t.try_to_amino(&owned[..]) == Ok(<Amino as Oracle>::entry(*a).sym), "C15 a key codon translates to exactly the mapped amino acid, whatever slice presents it", || format!("{} {} (owned)", C::NAME, owned));
            }
            for _ in 0..6 {
                let probe_len = 1 + rng.below(4);
                let probe = rand_rows::<C>(rng, probe_len);
                let canon: Vec<usize> = probe.iter().map(|&r| C::expect_ascii(C::entry(r).ch).unwrap()).collect();
                let want = model.iter().find(|(k, _)| *k == canon).map(|(_, a)| *a);
                let s = build::<C>(&probe);
                let got = t.try_to_amino(&s);
                match want {
                    Some(a) => rep.expect(got == Ok(<Amino as Oracle>::entry(a).sym), "C15 a key codon translates to exactly the mapped amino acid, whatever slice presents it", || format!("{} {}", C::NAME, s)),
                    None => rep.expect(matches!(&got, Err(TranslationError::InvalidCodon(c)) if *c == s), "C15 a non-key codon is reported invalid (with that codon)", || format!("{} {} got {:?}", C::NAME, s, got.as_ref().map(|x| x.to_char()))),
                }
            }
            // reverse lookups for every amino symbol
            for a in 0..<Amino as Oracle>::len() {
                let sym = <Amino as Oracle>::entry(a).sym;
                let pre: Vec<&Vec<usize>> = model.iter().filter(|(_, x)| *x == a).map(|(k, _)| k).collect();
                let got = t.try_to_codon(sym);
                match pre.len() {
                    0 => rep.expect(got == Err(TranslationError::InvalidAmino(sym)), "C15 reverse lookup: no preimage -> invalid amino acid", || format!("{} amino={} got {:?}", C::NAME, sym.to_char(), got.as_ref().map(|s| s.to_string()))),
                    1 => rep.expect(matches!(&got, Ok(s) if rows_of::<C>(s) == *pre[0]), "C15 reverse lookup: the unique codon mapped to the amino acid", || format!("{} amino={} got {:?} want rows {:?}", C::NAME, sym.to_char(), got.as_ref().map(|s| s.to_string()), pre[0])),
                    _ => rep.expect(got == Err(TranslationError::AmbiguousCodon(sym)), "C15 reverse lookup: two or more preimages -> ambiguity, independent of iteration order", || format!("{} amino={} preimages={} got {:?}", C::NAME, sym.to_char(), pre.len(), got.as_ref().map(|s| s.to_string()))),
                }
            }
        }
        // the entry list given as an ARRAY that names one codon more than once (`Into<HashMap>` keeps the last entry):
        // the table must behave exactly like the table of the collapsed map
        if !model.is_empty() {
            let (k0, a0) = model[0].clone();
            let (k1, a1) = if model.len() > 1 { model[1].clone() } else { (k0.clone(), (a0 + 1) % 5) };
            for later in [a0, (a0 + 1) % 5, a1] {
                let am = |a: usize| <Amino as Oracle>::entry(a).sym;
                let arr = [(build::<C>(&k0), am(a0)), (build::<C>(&k1), am(a1)), (build::<C>(&k0), am(later))];
                let collapsed: HashMap<Seq<C>, Amino> = HashMap::from(arr.clone());
                let want: CodonTable<C, Amino> = CodonTable::from_map(collapsed.clone());
                let got: CodonTable<C, Amino> = CodonTable::from_map(arr);
                rep.case(|| format!("{} round={} repeated key in an array of entries", C::NAME, round));
                for k in [&k0, &k1] {
                    let s = build::<C>(k);
                    rep.expect(got.try_to_amino(&s) == Ok(collapsed[&s]) && want.try_to_amino(&s) == Ok(collapsed[&s]), "C15 a key codon translates to exactly the mapped amino acid (entry list with a repeated codon: the map keeps the last entry)", || format!("{} {} later amino {}", C::NAME, s, am(later).to_char()));
                }
                for a in 0..<Amino as Oracle>::len() {
                    let sym = am(a);
                    let n = collapsed.values().filter(|v| **v == sym).count();
                    let g = got.try_to_codon(sym);
                    let ok = match n {
                        0 => g == Err(TranslationError::InvalidAmino(sym)),
                        1 => matches!(&g, Ok(c) if collapsed.get(c) == Some(&sym)),
                        _ => g == Err(TranslationError::AmbiguousCodon(sym)),
                    };
                    rep.expect(ok && g == want.try_to_codon(sym), "C15 reverse lookup counts the codons of the MAP (an entry overridden by a later one with the same codon is not a preimage)", || format!("{} entries [{}->{}, {}->{}, {}->{}] amino={} preimages in the map={} got {:?}", C::NAME, build::<C>(&k0), am(a0).to_char(), build::<C>(&k1), am(a1).to_char(), build::<C>(&k0), am(later).to_char(), sym.to_char(), n, g.as_ref().map(|s| s.to_string())));
                }
            }
        }
    }
}
fn c15(tier: &str, seed: u64) -> Report {
    let mut rep = Report::new("C15", "random maps with 0..8 codon keys of length 1..4 onto 5 amino symbols (0,1,2,3+ preimages), quick 40 / thorough 400 maps per codec (Dna, Iupac), each constructed 3 times (fresh RandomState = different iteration order), keys presented as slices at offsets 0..6, 6 random probes, all 21 reverse lookups; per map three 3-entry ARRAYS naming one codon twice (same / different amino acid) against the table of the collapsed map");
    rep.functions = vec!["std HashMap / RandomState / Borrow lookup on the real crate (cross-check of the HashMap shim contracts)", "From<&SeqSlice<A>> for Seq<A> on the error path"];
    let mut rng = Rng::new(seed);
    let rounds = if tier == "thorough" { 400 } else { 40 };
    c15_codec::<Dna>(&mut rep, &mut rng, rounds);
    c15_codec::<Iupac>(&mut rep, &mut rng, rounds);
    rep
}

// ------------------------------------------------------------------------------------------ C09
/// k-mer operations against the same operation on the equivalent sequence, on the real crate.  The word-level proofs are Kani's
/// (complete per K); this bounded stand-in exists because a rewritten loop (`while src != 0`) can make those harnesses time out:
/// it sweeps every codec width with STRUCTURED content (all-zero symbols at the ends), which is what such rewrites key on.
fn c09_k<C: Oracle, const K: usize>(rep: &mut Report, rng: &mut Rng) {
    let zero = (0..C::len()).find(|&r| C::entry(r).code == 0);
    let mut contents: Vec<Vec<usize>> = (0..6).map(|_| rand_rows::<C>(rng, K)).collect();
    if let Some(z) = zero {
        let mut a = rand_rows::<C>(rng, K); a[K - 1] = z; contents.push(a.clone());
        a[0] = z; contents.push(a.clone());
        if K > 2 { a[K - 2] = z; contents.push(a); }
        contents.push(vec![z; K]);
    }
    contents.push(vec![C::len() - 1; K]);
    for rows in contents {
        let s = build::<C>(&rows);
        let k: Kmer<C, K> = match Kmer::try_from(&s[..]) { Ok(k) => k, Err(_) => { rep.expect(false, "C09 a k-mer is built from K symbols", || format!("{} K={}", C::NAME, K)); continue; } };
        rep.case(|| format!("{} K={} {}", C::NAME, K, s));
        let canon = |x: &Kmer<C, K>| K * C::BITS as usize == 64 || x.bs >> (K * C::BITS as usize) == 0;
        let r = k.to_rev();
        let mut rr = k; rr.rev();
        rep.expect(r.to_string() == s.to_rev().to_string() && rr == r && r.to_rev() == k && canon(&r), "C09 reversing a k-mer gives the symbols of the reversed sequence (involutive, canonical)", || format!("{} K={} {} -> {} (sequence: {})", C::NAME, K, k, r, s.to_rev()));
        for n in [0u32, 1, 2, K as u32 - 1, K as u32, K as u32 + 1, 3 * K as u32 + 2, 65_537] {
            let m = n as usize % K;
            let mut wl = rows.clone(); wl.rotate_left(m);
            let mut wr = rows.clone(); wr.rotate_right(m);
            let (l, rt) = (k.rotated_left(n), k.rotated_right(n));
            rep.expect(rows_of::<C>(&*l) == wl && rows_of::<C>(&*rt) == wr && canon(&l) && canon(&rt) && l.rotated_right(n) == k, "C09 rotating a k-mer rotates its symbols (any amount, canonical)", || format!("{} K={} {} by {}: left {} right {}", C::NAME, K, k, n, l, rt));
        }
        for b in [0usize, C::len() - 1, rng.below(C::len())] {
            let sym = C::entry(b).sym;
            let mut wr = rows[1..].to_vec(); wr.push(b);
            let mut wl = vec![b]; wl.extend(&rows[..K - 1]);
            let (pr, pl) = (k.pushr(sym), k.pushl(sym));
            rep.expect(rows_of::<C>(&*pr) == wr && rows_of::<C>(&*pl) == wl && canon(&pr) && canon(&pl), "C09 pushing a symbol on either end drops one from the other end (canonical)", || format!("{} K={} {} push {}: right {} left {}", C::NAME, K, k, sym.to_char() as char, pr, pl));
        }
    }
}
fn c09_dna<const K: usize>(rep: &mut Report, rng: &mut Rng) {
    let mut contents: Vec<Vec<usize>> = (0..8).map(|_| rand_rows::<Dna>(rng, K)).collect();
    contents.push(vec![0; K]);
    contents.push(vec![3; K]);
    for rows in contents {
        let s = build::<Dna>(&rows);
        let k: Kmer<Dna, K> = Kmer::try_from(&s[..]).unwrap();
        rep.case(|| format!("Dna K={} {}", K, s));
        let canon = |x: &Kmer<Dna, K>| K == 32 || x.bs >> (2 * K) == 0;
        let (c, rc) = (k.to_comp(), k.to_revcomp());
        rep.expect(c.to_string() == s.to_comp().to_string() && rc.to_string() == s.to_revcomp().to_string() && rc.to_revcomp() == k && c.to_comp() == k && canon(&c) && canon(&rc)
            && c == Kmer::<Dna, K>::try_from(&s.to_comp()[..]).unwrap() && rc == Kmer::<Dna, K>::try_from(&s.to_revcomp()[..]).unwrap() && std::cmp::min(k, rc) == std::cmp::min(rc, rc.to_revcomp()),
            "C09 complement / reverse-complement of a DNA k-mer equal those of the sequence (involutive, canonical, same canonical form)", || format!("K={} {} comp {} revcomp {}", K, k, c, rc));
    }
}
fn c09(_tier: &str, seed: u64) -> Report {
    let mut rep = Report::new("C09", "k-mers of K in {1,2,3,8,16,31,32} (Dna), {1,2,5,16} (Iupac), {1,3,10} (Amino), {1,8} (text), {1,12} (masked 5-bit), {1,7,64} (1-bit): random and structured content (all-zero symbols at either end), every rotation class incl. 65537, pushes of the first / last / a random symbol");
    rep.functions = vec!["cross-check of the Kani word-level laws on the real crate (bounded): rev / comp / revcomp / rotated_* / pushl / pushr"];
    let mut rng = Rng::new(seed);
    c09_k::<Dna, 1>(&mut rep, &mut rng); c09_k::<Dna, 2>(&mut rep, &mut rng); c09_k::<Dna, 3>(&mut rep, &mut rng); c09_k::<Dna, 8>(&mut rep, &mut rng);
    c09_k::<Dna, 16>(&mut rep, &mut rng); c09_k::<Dna, 31>(&mut rep, &mut rng); c09_k::<Dna, 32>(&mut rep, &mut rng);
    c09_k::<Iupac, 1>(&mut rep, &mut rng); c09_k::<Iupac, 2>(&mut rep, &mut rng); c09_k::<Iupac, 5>(&mut rep, &mut rng); c09_k::<Iupac, 16>(&mut rep, &mut rng);
    c09_k::<Amino, 1>(&mut rep, &mut rng); c09_k::<Amino, 3>(&mut rep, &mut rng); c09_k::<Amino, 10>(&mut rep, &mut rng);
    c09_k::<text::Dna, 1>(&mut rep, &mut rng); c09_k::<text::Dna, 8>(&mut rep, &mut rng);
    c09_k::<masked::iupac::Iupac, 1>(&mut rep, &mut rng); c09_k::<masked::iupac::Iupac, 12>(&mut rep, &mut rng);
    c09_k::<masked::dna::Dna, 4>(&mut rep, &mut rng); c09_k::<masked::dna::Dna, 16>(&mut rep, &mut rng);
    c09_k::<degenerate::dna::Dna, 1>(&mut rep, &mut rng); c09_k::<degenerate::dna::Dna, 7>(&mut rep, &mut rng); c09_k::<degenerate::dna::Dna, 64>(&mut rep, &mut rng);
    c09_dna::<1>(&mut rep, &mut rng); c09_dna::<2>(&mut rep, &mut rng); c09_dna::<5>(&mut rep, &mut rng); c09_dna::<16>(&mut rep, &mut rng); c09_dna::<31>(&mut rep, &mut rng); c09_dna::<32>(&mut rep, &mut rng);
    rep
}

pub fn run(prop: &str, tier: &str, seed: u64) -> Report {
    match prop {
        "C01" => c01(tier, seed),
        "C02" => c02(tier, seed),
        "C03" => c03(tier, seed),
        "C04" => c04(tier, seed),
        "C06" => c06(tier, seed),
        "C07" => c07(tier, seed),
        "C08" => c08(tier, seed),
        "C09" => c09(tier, seed),
        "C10" => c10(tier, seed),
        "C11" => c11(tier, seed),
        "C12" => c12(tier, seed),
        "C13" => c13(tier, seed),
        "C14" => c14(tier, seed),
        "C15" => c15(tier, seed),
        "C19" => c19(tier, seed),
        "C20" => c20(tier, seed),
        _ => Report::new(prop, "no stand-in defined"),
    }
}
