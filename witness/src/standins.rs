//! Bounded stand-ins for code the deductive verifier cannot reach (iterator-adapter glue).
//! Everything here is labelled `bounded` in the evidence and never counted as an obligation.
use crate::json_str;

pub struct Report {
    pub property: String,
    pub bound: String,
    pub cases: usize,
    pub distinct: usize,
    pub failures: Vec<(String, String)>,
    pub samples: Vec<String>,
    pub functions: Vec<&'static str>,
}

impl Report {
    pub fn new(p: &str, bound: &str) -> Self {
        Report { property: p.into(), bound: bound.into(), cases: 0, distinct: 0, failures: vec![], samples: vec![], functions: vec![] }
    }
    pub fn case(&mut self, sample: impl FnOnce() -> String) {
        self.cases += 1;
        self.distinct += 1;
        if self.samples.len() < 5 {
            self.samples.push(sample());
        }
    }
    pub fn fail(&mut self, what: &str, input: String) {
        if self.failures.len() < 20 {
            self.failures.push((what.to_string(), input));
        }
    }
    pub fn expect(&mut self, ok: bool, what: &str, input: impl FnOnce() -> String) {
        if !ok {
            self.fail(what, input());
        }
    }
    pub fn to_json(&self) -> String {
        let f: Vec<String> = self.failures.iter().map(|(w, i)| format!("{{\"what\":{},\"input\":{}}}", json_str(w), json_str(i))).collect();
        let s: Vec<String> = self.samples.iter().map(|x| json_str(x)).collect();
        let fns: Vec<String> = self.functions.iter().map(|x| json_str(x)).collect();
        format!(
            "{{\"property\":{},\"bound\":{},\"cases\":{},\"distinct\":{},\"failures\":[{}],\"samples\":[{}],\"functions\":[{}]}}",
            json_str(&self.property), json_str(&self.bound), self.cases, self.distinct, f.join(","), s.join(","), fns.join(",")
        )
    }
}

pub fn run(prop: &str, _tier: &str, _seed: u64) -> Report {
    match prop {
        _ => Report::new(prop, "no stand-in defined"),
    }
}
