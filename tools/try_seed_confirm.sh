#!/bin/bash
# usage: tools/try_seed_confirm.sh <workdir-id> [extra cargo features for the demo]
# step 1 of try_seed.sh only (runs in the scratch worktree, so several can run in parallel):
# suite green with the change, demo fails with / passes without it.
id=$1; feat=${2:-translation,extra_codecs}
W=/tmp/mut_$id; O=/tmp/mut_${id}_out
export CARGO_TARGET_DIR=$W/target
cd $W || exit 9
git checkout -q -- . ; rm -rf bio-seq/tests
git apply $O/patch.diff || { echo "patch.diff does not apply to the worktree"; exit 7; }
echo "--- suite with change"; cargo test --workspace --offline 2>&1 | grep -E '^test result|FAILED|^error' | sort | uniq -c
cargo test --offline -p bio-seq --features translation,extra_codecs 2>&1 | grep -E '^test result|FAILED|^error' | sort | uniq -c
mkdir -p bio-seq/tests && cp $O/demo.rs bio-seq/tests/demo.rs
echo "--- demo with change";  cargo test --offline -p bio-seq --features $feat --test demo 2>&1 | grep -E '^test result|^error' | head -3
git apply -R $O/patch.diff
echo "--- demo without change"; cargo test --offline -p bio-seq --features $feat --test demo 2>&1 | grep -E '^test result|^error' | head -3
git apply $O/patch.diff
rm -rf bio-seq/tests
