#!/usr/bin/env python3
"""tools/try_refactors.py <worktree-id>: apply each /tmp/mut_<id>_out/refactor_*.diff (behaviour-preserving edits written by an
independent sub-agent) to /repo, run the quick checks of every property that depends on a touched file, restore /repo.
A VIOLATION here is a FALSE ALARM; UNDECIDED (exit 2) is recorded."""
import glob, json, os, re, subprocess, sys
ROOT = os.path.dirname(os.path.dirname(os.path.abspath(__file__)))
wid = sys.argv[1]
only = sys.argv[2:]
# file -> properties, from the evidence written on the pristine tree
fmap = {}
for f in glob.glob(os.path.join(ROOT, 'evidence', '*.json')):
    e = json.load(open(f))
    pid = e['property_id']
    def walk(o):
        if isinstance(o, dict):
            if 'file' in o and isinstance(o['file'], str):
                fmap.setdefault(o['file'].split('/repo/')[-1], set()).add(pid)
            for v in o.values():
                walk(v)
        elif isinstance(o, list):
            for v in o:
                walk(v)
    walk(e)
EXTRA = {'bio-seq/src/codec': ['C05', 'C07', 'C09', 'C12', 'C19', 'C20', 'C01'], 'bio-seq-derive/': ['C16', 'C17', 'C05'], 'bio-seq/src/kmer': ['C09', 'C10', 'C04', 'C08', 'C02'],
         'bio-seq/src/seq.rs': ['C01', 'C19', 'C18'], 'bio-seq/src/seq/iterators.rs': ['C01', 'C11'], 'bio-seq/src/translation': ['C13', 'C14', 'C15'], 'bio-seq/src/lib.rs': ['C07', 'C20', 'C16']}
env = dict(os.environ, VERIF_EVIDENCE_DIR=os.path.join(ROOT, 'work', 'seed-evidence'))
rows = []
for d in sorted(glob.glob('/tmp/mut_%s_out/refactor_*.diff' % wid) or glob.glob(os.path.join(ROOT, 'seeded', '_refactors', wid, 'refactor_*.diff'))):
    files = re.findall(r'^\+\+\+ b/(\S+)', open(d).read(), re.M)
    props = set()
    for fl in files:
        props |= fmap.get(fl, set())
        for k, v in EXTRA.items():
            if fl.startswith(k):
                props |= set(v)
    if only:
        props &= set(only)
    a = subprocess.run(['git', '-C', '/repo', 'apply', d], capture_output=True, text=True)
    if a.returncode != 0:
        print(os.path.basename(d), 'DOES NOT APPLY', a.stderr[:200]); continue
    try:
        for p in sorted(props):
            r = subprocess.run([os.path.join(ROOT, 'check'), p], capture_output=True, text=True, cwd=ROOT, env=env)
            last = [l for l in r.stdout.split('\n') if re.match(r'^(OK|VIOLATION|UNDECIDED|FAILED-OB)', l)]
            rows.append((os.path.basename(d), p, r.returncode, (last[0] if last else '')[:230]))
            print(os.path.basename(d), files, p, 'exit', r.returncode, (last[0] if last else '')[:230], flush=True)
    finally:
        subprocess.run(['git', '-C', '/repo', 'checkout', '--', '.'])
n1 = len([r for r in rows if r[2] == 1]); n2 = len([r for r in rows if r[2] == 2])
print('runs=%d false-alarms(exit1)=%d undecided(exit2)=%d' % (len(rows), n1, n2))
