#!/usr/bin/env python3
"""Verify every item of contracts/*.vrs as a single-root micro-unit (both modes); reports failures.
Development aid: catches missing deps and unstable proofs."""
import os, sys, json
ROOT = os.path.dirname(os.path.dirname(os.path.abspath(__file__)))
sys.path.insert(0, os.path.join(ROOT, 'checklib'))
import verus_run
from extract import Extractor
from concurrent.futures import ThreadPoolExecutor
modes = sys.argv[1:] or ['T', 'R']
ex = Extractor('/repo', os.path.join(ROOT, 'contracts'), 'T')
items = [n for n in ex.order if n not in ('header', 'footer')]
wd = os.path.join(ROOT, 'work', 'sweep')
os.makedirs(wd, exist_ok=True)
def one(a):
    m, it = a
    r, *_ = verus_run._verify_one('/repo', wd, 'sweep', m, [it], it.replace('.', '_'))
    return m, it, r
bad = 0
with ThreadPoolExecutor(max_workers=14) as tp:
    for m, it, r in tp.map(one, [(m, it) for m in modes for it in items]):
        if r.status != 'ok':
            bad += 1
            print('%s %-28s %s %s %s' % (m, it, r.status, r.reason[:200], [f['obligation'][:120] for f in r.failed][:4]))
        else:
            print('%s %-28s ok verified=%d total_ms=%d' % (m, it, r.verified, r.total_ms))
print('bad =', bad)
