#!/usr/bin/env python3
"""tools/regress_seeds.py [names...]: apply every stored seeded change to /repo, run the quick check of its property,
expect exit 1 with a VIOLATION line, restore /repo.  Evidence of these runs goes to work/seed-evidence."""
import json, os, subprocess, sys
ROOT = os.path.dirname(os.path.dirname(os.path.abspath(__file__)))
env = dict(os.environ, VERIF_EVIDENCE_DIR=os.path.join(ROOT, 'work', 'seed-evidence'))
names = sys.argv[1:] or sorted(n for n in os.listdir(os.path.join(ROOT, 'seeded')) if not n.startswith('_'))
miss = []
for n in names:
    d = os.path.join(ROOT, 'seeded', n)
    if not os.path.exists(os.path.join(d, 'patch.diff')):
        continue
    meta = json.load(open(os.path.join(d, 'meta.json')))
    if str(meta.get('status', '')).startswith('obsolete'):
        print('%-36s skipped: %s' % (n, meta['status'][:80])); continue
    prop = meta['property']
    a = subprocess.run(['git', '-C', '/repo', 'apply', os.path.join(d, 'patch.diff')], capture_output=True, text=True)
    if a.returncode != 0:
        print(n, 'DOES NOT APPLY', a.stderr[:200]); miss.append(n); continue
    try:
        r = subprocess.run([os.path.join(ROOT, 'check'), prop], capture_output=True, text=True, cwd=ROOT, env=env)
    finally:
        subprocess.run(['git', '-C', '/repo', 'checkout', '--', '.'])
    first = [l for l in r.stdout.split('\n') if l.startswith(('FAILED-OB', 'UNDECIDED', 'OK'))]
    print('%-36s %s exit %d  %s' % (n, prop, r.returncode, (first[0] if first else '')[:150]), flush=True)
    if r.returncode != 1 or 'VIOLATION property=' + prop not in r.stdout:
        miss.append(n)
print('seeds=%d missed=%d %s' % (len(names), len(miss), miss))
