#!/bin/bash
# usage: tools/try_seed.sh <workdir-id> <property> [extra properties...]
# 1. confirms in the scratch worktree /tmp/mut_<id> (reset to HEAD, patch.diff applied): suite green with the change,
#    demo fails with / passes without (git apply -R; no git stash: the stash is shared between worktrees)
# 2. applies /tmp/mut_<id>_out/patch.diff to /repo, runs ./check for the properties, restores /repo
id=$1; shift
W=/tmp/mut_$id; O=/tmp/mut_${id}_out
export CARGO_TARGET_DIR=$W/target
cd $W || exit 9
git checkout -q -- . ; rm -rf bio-seq/tests
git apply $O/patch.diff || { echo "patch.diff does not apply to the worktree"; exit 7; }
echo "--- suite with change"; cargo test --workspace --offline 2>&1 | grep -E '^test result|FAILED|^error' | sort | uniq -c
cargo test --offline -p bio-seq --features translation,extra_codecs 2>&1 | grep -E '^test result|FAILED|^error' | sort | uniq -c
mkdir -p bio-seq/tests && cp $O/demo.rs bio-seq/tests/demo.rs
echo "--- demo with change";  cargo test --offline -p bio-seq --features translation,extra_codecs --test demo 2>&1 | grep -E '^test result|^error' | head -3
git apply -R $O/patch.diff
echo "--- demo without change"; cargo test --offline -p bio-seq --features translation,extra_codecs --test demo 2>&1 | grep -E '^test result|^error' | head -3
git apply $O/patch.diff
rm -rf bio-seq/tests
cp $O/patch.diff /tmp/seed_$id.diff
cd /verif
git -C /repo apply /tmp/seed_$id.diff || { echo "patch does not apply to /repo"; exit 8; }
export VERIF_EVIDENCE_DIR=/verif/work/seed-evidence
for p in "$@"; do echo "--- ./check $p on seeded tree"; ./check $p 2>&1 | grep -E '^(VIOLATION|FAILED-OBLIGATION|OK|UNDECIDED|KNOWN)' | cut -c1-260 | head -8; echo "exit ${PIPESTATUS[0]}"; done
git -C /repo checkout -- . && git -C /repo status --short | head -3
