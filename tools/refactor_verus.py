#!/usr/bin/env python3
"""Behaviour-preserving edits of extracted functions: no check may report a failed obligation (ok or UNDECIDED only).
usage: tools/refactor_verus.py <scratch-worktree>"""
import os, sys
ROOT = os.path.dirname(os.path.dirname(os.path.abspath(__file__)))
sys.path.insert(0, os.path.join(ROOT, 'checklib'))
import verus_run
W = sys.argv[1]
M = [
 ('bio-seq/src/seq/slice.rs', "if i >= self.bs.len() / A::BITS as usize {", "if i >= self.len() {", 'T', ['slice.get']),
 ('bio-seq/src/seq/slice.rs', "        self.len() == 0", "        self.bs.is_empty()", 'T', ['slice.is_empty']),
 ('bio-seq/src/seq/index.rs', "        let s = range.start.saturating_mul(A::BITS as usize);\n        let e = range.end.saturating_mul(A::BITS as usize);\n        let bs: *const Bs = ptr::from_ref::<Bs>(&self.bs[s..e]);", "        let e = range.end.saturating_mul(A::BITS as usize);\n        let s = range.start.saturating_mul(A::BITS as usize);\n        let bs: *const Bs = ptr::from_ref::<Bs>(&self.bs[s..e]);", 'T', ['index.range']),
 ('bio-seq/src/seq.rs', "        let byte: u8 = item.to_bits();\n        self.bv\n            .extend_from_bitslice(&byte.view_bits::<Order>()[..A::BITS as usize]);", "        let code: u8 = item.to_bits();\n        let width = A::BITS as usize;\n        self.bv\n            .extend_from_bitslice(&code.view_bits::<Order>()[..width]);", 'T', ['seq.push']),
 ('bio-seq/src/seq.rs', "        let mut bv = Bv::with_capacity(self.bv.len() + other.bs.len());\n        bv.extend_from_bitslice(&other.bs);\n        bv.extend_from_bitslice(&self.bv);\n        self.bv = bv;", "        let total = self.bv.len() + other.bs.len();\n        let mut bv = Bv::with_capacity(total);\n        bv.extend_from_bitslice(&other.bs);\n        bv.extend_from_bitslice(&self.bv);\n        self.bv = bv;", 'T', ['seq.prepend']),
 ('bio-seq/src/seq/iterators.rs', "        let i = self.index;\n        if self.index >= self.slice.len() {\n            return None;\n        }\n        self.index += 1;", "        let i = self.index;\n        if i >= self.slice.len() {\n            return None;\n        }\n        self.index = i + 1;", 'T', ['iter.seqiter.next']),
 ('bio-seq/src/kmer.rs', "        let i = self.index;\n        if self.index + K > self.len {\n            return None;\n        }\n        self.index += 1;", "        let i = self.index;\n        if i + K > self.len {\n            return None;\n        }\n        self.index = i + 1;", 'T', ['kmer.iter.next']),
 ('bio-seq/src/kmer.rs', "        if seq.len() == K {\n            Ok(Kmer::<A, K, S>::unsafe_from(&seq[0..K]))\n        } else {\n            Err(ParseBioError::MismatchedLength(K, seq.len()))\n        }", "        if seq.len() != K {\n            Err(ParseBioError::MismatchedLength(K, seq.len()))\n        } else {\n            Ok(Kmer::<A, K, S>::unsafe_from(&seq[0..K]))\n        }", 'T', ['kmer.try_from']),
 ('bio-seq/src/translation.rs', "            if inverse_table.contains_key(amino) {\n                inverse_table.insert(*amino, None);\n            } else {\n                inverse_table.insert(*amino, Some(codon.clone()));\n            }", "            if !inverse_table.contains_key(amino) {\n                inverse_table.insert(*amino, Some(codon.clone()));\n            } else {\n                inverse_table.insert(*amino, None);\n            }", 'T', ['translation.codontable']),
 ('bio-seq/src/seq.rs', "        self.bv.reverse();\n        for chunk in self.bv.rchunks_exact_mut(A::BITS as usize) {\n            chunk.reverse();\n        }", "        self.bv.reverse();\n        let width = A::BITS as usize;\n        for chunk in self.bv.rchunks_exact_mut(width) {\n            chunk.reverse();\n        }", 'T', ['seq.rev']),
]
bad = 0
for k, (f, old, new, mode, roots) in enumerate(M):
    p = os.path.join(W, f)
    src = open(p).read()
    if src.count(old) != 1:
        print(k, 'PATTERN-NOT-UNIQUE', src.count(old)); continue
    open(p, 'w').write(src.replace(old, new))
    try:
        r = verus_run.build_and_verify(W, os.path.join(ROOT, 'work', 'refac'), 'ref%d' % k, mode, roots, canaries=False)
    finally:
        open(p, 'w').write(src)
    if r.status == 'failed':
        bad += 1
    print(k, f.split('/')[-1], roots, r.status, [x['obligation'].split('::')[-1][:90] for x in r.failed][:2], r.reason[:140], flush=True)
print('refactors: %d, FALSE ALARMS (failed obligations): %d' % (len(M), bad))
