#!/usr/bin/env python3
"""Generate enum declarations for C17 (derived codecs) + their oracles, computed from the declaration and
independent of the derive macro.  usage: gen_c17.py <seed> <n_random> <out_dir>  -> writes gen.rs, decls.json, reject/*.rs"""
import json, math, os, random, sys

seed, nrand, out = int(sys.argv[1]), int(sys.argv[2]), sys.argv[3]
rnd = random.Random(seed)
PUNCT = list("-.*?!+#@=~^_|:;<>")
NAMES = [chr(c) + s for c in range(65, 91) for s in ('', 'x', 'Masked', 'b2')]


def lit(v, style):
    if style == 'bin':
        return '0b' + format(v, 'b').rjust(rnd.choice([1, 4, 8]), '0')
    if style == 'hex':
        return '0x%X' % v
    if style == 'byte' and 32 < v < 127 and chr(v) not in "'\\":
        return "b'%s'" % chr(v)
    return str(v)


def make(name, discs, bits=None, alts=None, displays=None, style='int'):
    """discs: list of ints (declaration order)"""
    alts = alts or {}
    displays = displays or {}
    vs = []
    used_names = set()
    pool = [n for n in NAMES]
    rnd.shuffle(pool)
    chars = set(displays.values())
    spare = [c for c in "abcdefghijklmnopqrstuvwxyz0123456789" + "".join(PUNCT) if c not in chars]
    for i, d in enumerate(discs):
        n = next(x for x in pool if x not in used_names and (i in displays or x[0] not in chars))  if any(x not in used_names and (i in displays or x[0] not in chars) for x in pool) else next(x for x in pool if x not in used_names)
        used_names.add(n)
        if i in displays:
            ch, disp = displays[i], True
        elif n[0] not in chars:
            ch, disp = n[0], False
        else:
            ch = next(c for c in spare if c not in chars)
            disp = True
        chars.add(ch)
        vs.append(dict(name=n, disc=d, lit=lit(d, style if isinstance(style, str) else style[i % len(style)]), alts=alts.get(i, []), ch=ch, display=disp))
    mx = max(discs)
    width = bits if bits is not None else max(1, math.ceil(math.log2(mx + 1)))
    if bits is None and mx == 0:
        width = 0
    return dict(name=name, variants=vs, bits=bits, width=width)


def boundary():
    ds = []
    ds.append(make('B2', [0, 1]))                                   # 2 variants, width 1
    ds.append(make('B40', list(range(40))))                         # 40 variants, width 6
    ds.append(make('Bw1', [1, 0], bits=1))
    ds.append(make('Bw3', [5, 2, 7, 0], bits=3, style='bin'))
    ds.append(make('Bw7', [100, 3, 64, 127], bits=7, style='hex'))
    ds.append(make('Bw8', [200, 13, 255, 0, 128], bits=8))
    for mx in (1, 2, 3, 4, 7, 8, 15, 16, 31, 32, 63, 64, 127, 128, 254):
        ds.append(make('Bmax%d' % mx, [0, mx, mx // 2] if mx // 2 not in (0, mx) else [0, mx]))
    ds.append(make('Bbyte', [65, 67, 71, 84, 45], style='byte'))
    ds.append(make('Balt', [1, 2, 4, 8], bits=4, alts={0: [3, 5], 2: [6, 7, 9], 3: [15]}, style='bin'))
    ds.append(make('Bdisp', [0, 1, 2, 3, 4], displays={1: '-', 2: '*', 3: '.', 4: 'q'}))
    ds.append(make('Bdisp2', [0, 1, 2, 3, 4, 5], displays={0: ' ', 1: '!', 2: '~', 3: '0', 4: 'Z', 5: '/'}))   # blank, both ends of the graphic range, a digit, an upper-case letter
    d = make('Baltsplit', [0, 1, 2, 3], bits=4, alts={0: [4, 8, 12], 1: [5, 9], 3: [15, 7, 11, 13]}, style='bin')
    d['altsplit'] = True                                          # alternatives spread over several #[alt] attributes
    ds.append(d)
    d = make('Bnoise', [0, 1, 2, 3, 4], bits=3, alts={1: [5], 4: [6, 7]}, displays={0: '-', 2: '.', 4: 'x'})
    d['noise'] = True                                             # doc comments / other attributes around the helper attributes
    ds.append(d)
    ds.append(make('Bwide', [0, 1, 2], bits=6))                     # declared width larger than minimal
    return ds


def randoms(n):
    ds = []
    for k in range(n):
        nv = rnd.choice([2, 3, 4, 5, 8, 12, 16, 21, 32, 40])
        hi = rnd.choice([3, 7, 15, 31, 63, 127, 254])
        hi = max(hi, nv - 1)
        discs = rnd.sample(range(0, hi + 1), nv)
        mx = max(discs)
        minw = max(1, math.ceil(math.log2(mx + 1)))
        bits = rnd.choice([None, None, minw, min(8, minw + 1), 8])
        w = bits if bits is not None else minw
        free = [x for x in range(0, min(256, 1 << w)) if x not in discs]
        rnd.shuffle(free)
        alts = {}
        for i in rnd.sample(range(nv), min(nv, rnd.choice([0, 0, 1, 2, 3]))):
            cnt = rnd.choice([1, 2, 3])
            alts[i] = [free.pop() for _ in range(min(cnt, len(free)))]
        disp = {}
        pun = PUNCT[:]
        rnd.shuffle(pun)
        low = [chr(c) for c in range(97, 123)]
        rnd.shuffle(low)
        for i in rnd.sample(range(nv), min(nv, rnd.choice([0, 1, 2, 4]))):
            disp[i] = (pun.pop() if pun and rnd.random() < 0.5 else low.pop())
        style = rnd.choice(['int', 'bin', 'hex', ['int', 'bin', 'hex']])
        ds.append(make('R%d' % k, discs, bits=bits, alts=alts, displays=disp, style=style))
    return ds


def emit(ds):
    o = ['// GENERATED by tools/gen_c17.py seed=%d - do not edit' % seed,
         '#![allow(dead_code, non_camel_case_types, clippy::all)]',
         'use crate::laws::*;', 'use bio_seq::prelude::Codec;', '']
    hs = []
    for d in ds:
        E = d['name']
        o.append('#[derive(Clone, Copy, Debug, PartialEq, Eq, Hash, Codec)]')
        if d['bits'] is not None:
            o.append('#[bits(%d)]' % d['bits'])
        o.append('#[repr(u8)]')
        o.append('pub enum %s {' % E)
        for vi, v in enumerate(d['variants']):
            if d.get('noise'):
                o.append(['    /// documented variant', '    #[allow(dead_code)]', '    #[doc = "x"]', '    #[cfg_attr(any(), deprecated)]'][vi % 4])
            if v['display']:
                o.append("    #[display('%s')]" % v['ch'])
            if v['alts'] and d.get('altsplit'):
                # the same helper attribute repeated: one #[alt] per alternative, hex / binary literals mixed in
                for j, a in enumerate(v['alts']):
                    o.append('    #[alt(%s)]' % (hex(a) if j % 3 == 1 else bin(a) if j % 3 == 2 else str(a)))
            elif v['alts']:
                o.append('    #[alt(%s)]' % ', '.join(str(a) for a in v['alts']))
            if d.get('noise') and vi % 2 == 0:
                o.append('    /// trailing doc comment')
            o.append('    %s = %s,' % (v['name'], v['lit']))
        o.append('}')
        o.append('impl Oracle for %s {' % E)
        o.append('    const NAME: &\'static str = "%s";' % E)
        o.append('    const WIDTH: u8 = %d;' % d['width'])
        o.append('    const FULL: bool = false;')
        o.append('    fn len() -> usize { %d }' % len(d['variants']))
        o.append('    fn entry(i: usize) -> Entry<Self> {')
        o.append('        const T: [Entry<%s>; %d] = [' % (E, len(d['variants'])))
        for v in d['variants']:
            o.append("            Entry { sym: %s::%s, ch: %d, code: %d, alts: &[%s] }," % (E, v['name'], ord(v['ch']), v['disc'], ', '.join(str(a) for a in v['alts'])))
        o.append('        ];')
        o.append('        T[i]')
        o.append('    }')
        o.append('}')
        hs.append(E)
    o.append('#[cfg(kani)]')
    o.append('mod harness {')
    o.append('    use super::*;')
    o.append('    pub struct K;')
    o.append('    impl Src for K { fn u8(&mut self) -> u8 { kani::any() } fn usize(&mut self) -> usize { kani::any() } fn assume(&mut self, c: bool) -> bool { kani::assume(c); true } fn check(&mut self, _l: &\'static str, c: bool) { kani::assert(c, "unlabelled") } fn cover(&mut self, _l: &\'static str, _c: bool) {} }')
    for E in hs:
        o.append('    #[kani::proof] fn c17_%s() { derived_codec_law::<%s, _>(&mut K); }' % (E.lower(), E))
    o.append('}')
    o.append('pub const HARNESSES: &[&str] = &[%s];' % ', '.join('"c17_%s"' % E.lower() for E in hs))
    o.append('pub fn dispatch<S: Src>(name: &str, s: &mut S) -> bool {')
    o.append('    match name {')
    for E in hs:
        o.append('        "c17_%s" => derived_codec_law::<%s, S>(s),' % (E.lower(), E))
    o.append('        _ => return false,')
    o.append('    }')
    o.append('    true')
    o.append('}')
    o.append('/// sequences and k-mers over each derived codec (native only: the glue is bounded, see seqlaw.rs)')
    o.append('#[cfg(not(kani))]')
    o.append('pub fn seq_dispatch(name: &str) -> Vec<String> {')
    o.append('    match name {')
    for E in hs:
        o.append('        "c17_%s" => crate::seqlaw::run::<%s>(),' % (E.lower(), E))
    o.append('        _ => vec![],')
    o.append('    }')
    o.append('}')
    return '\n'.join(o) + '\n'


REJECT = {
 'too_small_width': ("#[derive(Clone, Copy, Debug, PartialEq, Eq, Hash, Codec)]\n#[bits(2)]\n#[repr(u8)]\npub enum E { A = 0, B = 7 }", 'Bit width is not large enough'),
 'missing_discriminant': ("#[derive(Clone, Copy, Debug, PartialEq, Eq, Hash, Codec)]\n#[repr(u8)]\npub enum E { A = 0, B }", 'require discriminants'),
 'float_discriminant': ("#[derive(Clone, Copy, Debug, PartialEq, Eq, Hash, Codec)]\npub enum E { A = 0, B = 1.5 }", 'byte or integer discriminants'),
 'string_discriminant': ("#[derive(Clone, Copy, Debug, PartialEq, Eq, Hash, Codec)]\npub enum E { A = 0, B = \"x\" }", 'byte or integer discriminants'),
 'struct_not_enum': ("#[derive(Clone, Copy, Debug, PartialEq, Eq, Hash, Codec)]\npub struct E { a: u8 }", 'can only be derived for enums'),
 'width_one_bit_three_values': ("#[derive(Clone, Copy, Debug, PartialEq, Eq, Hash, Codec)]\n#[bits(1)]\n#[repr(u8)]\npub enum E { A = 0, B = 1, C = 2 }", 'Bit width is not large enough'),
}

ds = boundary() + randoms(nrand)
os.makedirs(out, exist_ok=True)
open(os.path.join(out, 'gen.rs'), 'w').write(emit(ds))
json.dump(dict(seed=seed, declarations=ds, reject={k: dict(source=v[0], expect=v[1]) for k, v in REJECT.items()}), open(os.path.join(out, 'decls.json'), 'w'), indent=1)
print('generated %d declarations (%d boundary + %d random)' % (len(ds), len(ds) - nrand, nrand))
