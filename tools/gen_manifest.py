#!/usr/bin/env python3
"""Regenerate MANIFEST.json from checklib/props.py (claimed checks) and NA (not applicable)."""
import json, os, sys
ROOT = os.path.dirname(os.path.dirname(os.path.abspath(__file__)))
sys.path.insert(0, os.path.join(ROOT, 'checklib'))
from props import PROPS, NOT_APPLICABLE

props = [json.loads(l) for l in open(os.path.join(ROOT, 'properties.jsonl'))]
checks = []
for p in props:
    pid = p['id']
    if pid not in PROPS or not PROPS[pid].get('claimed', True):
        continue
    c = PROPS[pid]
    checks.append(dict(
        property_id=pid,
        quick_cmd='./check %s --tier quick' % pid,
        thorough_cmd='./check %s --tier thorough' % pid,
        evidence_file='/verif/evidence/%s.json' % pid,
        replay_cmd_template='./check %s --replay {path}' % pid,
        engine='contracts',
        level_claimed=dict(category=c['level'], text=c['level_text'], design_ref=c.get('design_ref', 'DESIGN.md section 6')),
        level_note=c['level_note'],
        technique=c['technique'],
    ))
na = []
for p in props:
    if p['id'] not in [c['property_id'] for c in checks]:
        na.append(dict(property_id=p['id'], reason=NOT_APPLICABLE.get(p['id'], 'check not built yet (implementation in progress; plan in DESIGN.md section 6)')))
m = dict(
    version=1,
    setup_cmd='./setup.sh',
    hooks=dict(guard='bio_seq_verif', enable='none needed: Verus reads the sources, Kani and the native crates use the public API from outside (no hook commits)',
               baseline_off_cmd='cd /repo && cargo test --workspace --no-fail-fast --offline', source_commits=[], add_only=True),
    engines=[dict(name='contracts', path='/verif/check', serves_properties=[c['property_id'] for c in checks],
                  kind_free_text='contract-based deductive verification: Verus on function text extracted mechanically from /repo on every run (layers S, P), Kani on the compiled crate for per-symbol and word-level laws (layer L), assumed bitvec contracts (layer B), native bounded stand-ins for iterator glue (labelled bounded)')],
    checks=checks,
    notes='See DESIGN.md. Exit codes of ./check: 0 held, 1 VIOLATION, 2 UNDECIDED (never an alarm). known_findings.json lists recorded and repaired defects.',
    not_applicable=na,
)
json.dump(m, open(os.path.join(ROOT, 'MANIFEST.json'), 'w'), indent=1)
print('MANIFEST: %d checks, %d not applicable' % (len(checks), len(na)))
