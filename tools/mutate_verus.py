#!/usr/bin/env python3
"""Self-made single-point mutations of the extracted functions, to see every Verus postcondition bite.
Works on a scratch worktree (never /repo); Verus phase only (the Kani / witness crates depend on /repo).
usage: tools/mutate_verus.py <scratch-worktree>"""
import os, subprocess, sys, json
ROOT = os.path.dirname(os.path.dirname(os.path.abspath(__file__)))
sys.path.insert(0, os.path.join(ROOT, 'checklib'))
import verus_run

W = sys.argv[1]
M = [
 # (file, old, new, mode, roots)
 ('bio-seq/src/seq.rs', "[..A::BITS as usize]);", "[..A::BITS as usize - 1]);", 'T', ['seq.push']),
 ('bio-seq/src/seq.rs', "self.bv.truncate(len * A::BITS as usize);", "self.bv.truncate(len * A::BITS as usize + 1);", 'T', ['seq.truncate']),
 ('bio-seq/src/seq.rs', "        bv.extend_from_bitslice(&other.bs);\n        bv.extend_from_bitslice(&self.bv);\n        self.bv = bv;", "        bv.extend_from_bitslice(&self.bv);\n        bv.extend_from_bitslice(&other.bs);\n        self.bv = bv;", 'T', ['seq.prepend']),
 ('bio-seq/src/seq.rs', "bv.extend_from_bitslice(&self.bs[i..]);", "bv.extend_from_bitslice(&self.bs[i + A::BITS as usize..]);", 'T', ['seq.insert']),
 ('bio-seq/src/seq.rs', "assert!(index <= self.len(), \"Index out of bounds\");", "assert!(index <= self.len() + 1, \"Index out of bounds\");", 'R', ['seq.insert']),
 ('bio-seq/src/seq.rs', "Bound::Included(&n) => n + 1,", "Bound::Included(&n) => n,", 'T', ['seq.remove.rangeincl', 'seq.remove.rangetoincl']),
 ('bio-seq/src/seq.rs', "Bound::Excluded(&n) => n + 1,\n            Bound::Unbounded => 0,", "Bound::Excluded(&n) => n,\n            Bound::Unbounded => 1,", 'T', ['seq.remove.rangeto', 'seq.remove.rangefull']),
 ('bio-seq/src/seq.rs', "self.bv.drain(s..e);", "self.bv.drain(s..e - 0);\n        self.bv.truncate(s);", 'T', ['seq.remove.range']),
 ('bio-seq/src/seq.rs', "if len > bv.len() / A::BITS as usize {", "if len > bv.len() / A::BITS as usize + 1 {", 'T', ['seq.raw']),
 ('bio-seq/src/seq.rs', "bv: self.bv.clone(),", "bv: Bv::new(),", 'T', ['seq.clone']),
 ('bio-seq/src/seq/slice.rs', "self.bs.len() / A::BITS as usize\n    }", "self.bs.len() / (A::BITS as usize + 1)\n    }", 'T', ['slice.len']),
 ('bio-seq/src/seq/slice.rs', "if i >= self.bs.len() / A::BITS as usize {", "if i > self.bs.len() / A::BITS as usize {", 'T', ['slice.get']),
 ('bio-seq/src/seq/slice.rs', "        self.bs.hash(state);\n        // prepend length", "        // prepend length", 'T', ['slice.hash']),
 ('bio-seq/src/seq/slice.rs', "        self.len().hash(state);", "        self.bs.len().hash(state);", 'T', ['slice.hash']),
 ('bio-seq/src/seq/slice.rs', "if slice.bs.len() <= usize::BITS as usize {", "if slice.bs.len() <= usize::BITS as usize + 8 {", 'T', ['slice.try_usize.accept']),
 ('bio-seq/src/seq/slice.rs', "        bv &= &rhs.bs;", "        bv |= &rhs.bs;", 'T', ['slice.bitops']),
 ('bio-seq/src/seq/index.rs', "let e = s.saturating_add(A::BITS as usize);", "let e = s.saturating_add(A::BITS as usize + 1);", 'T', ['index.usize']),
 ('bio-seq/src/seq/index.rs', "let e = range.end.saturating_add(1).saturating_mul(A::BITS as usize);\n        let bs: *const Bs = ptr::from_ref::<Bs>(&self.bs[..e]);", "let e = range.end.saturating_mul(A::BITS as usize);\n        let bs: *const Bs = ptr::from_ref::<Bs>(&self.bs[..e]);", 'T', ['index.rangetoincl']),
 ('bio-seq/src/seq/iterators.rs', "if self.index >= self.slice.len() {", "if self.index + 1 >= self.slice.len() {", 'T', ['iter.seqiter.next']),
 ('bio-seq/src/seq/iterators.rs', "Some(A::unsafe_from_bits(self.slice[i - 1].into()))", "Some(A::unsafe_from_bits(self.slice[self.index].into()))", 'T', ['iter.reviter.next']),
 ('bio-seq/src/seq/iterators.rs', "        self.index += self.skip;", "        self.index += self.width;", 'T', ['iter.chunks.next']),
 ('bio-seq/src/seq/iterators.rs', "            skip: width,\n            index: 0,", "            skip: 1,\n            index: 0,", 'T', ['iter.ctors']),
 ('bio-seq/src/kmer.rs', "if self.index + K > self.len {", "if self.index + K >= self.len {", 'T', ['kmer.iter.next']),
 ('bio-seq/src/kmer.rs', "Some(Kmer::<A, K>::unsafe_from(&self.slice[i..i + K]))", "Some(Kmer::<A, K>::unsafe_from(&self.slice[self.index..self.index + K]))", 'T', ['kmer.iter.next']),
 ('bio-seq/src/kmer.rs', "let n: usize = (n as usize % K) * A::BITS as usize;\n        let mut ba = self.bs.to_bitarray();\n        let bs: &mut Bs = ba.as_mut();\n        bs[..Self::BITS].rotate_left(n);", "let n: usize = (n as usize % K) * A::BITS as usize;\n        let mut ba = self.bs.to_bitarray();\n        let bs: &mut Bs = ba.as_mut();\n        bs[..Self::BITS].rotate_right(n);", 'T', ['kmer.rotate']),
 ('bio-seq/src/kmer.rs', "let start = Self::BITS - A::BITS as usize;", "let start = Self::BITS - 2 * A::BITS as usize;", 'T', ['kmer.push']),
 ('bio-seq/src/kmer.rs', "let mut ba = self.rotated_right(1).bs.to_bitarray();", "let mut ba = self.rotated_left(1).bs.to_bitarray();", 'T', ['kmer.push']),
 ('bio-seq/src/kmer.rs', "        K.hash(state);", "        (K + 1).hash(state);", 'T', ['kmer.hash']),
 ('bio-seq/src/kmer.rs', "if seq.len() == K {\n            Ok(", "if seq.len() >= K {\n            Ok(", 'T', ['kmer.try_from']),
 ('bio-seq/src/kmer.rs', "Err(ParseBioError::MismatchedLength(K, seq.len()))", "Err(ParseBioError::MismatchedLength(seq.len(), K))", 'T', ['kmer.try_from']),
 ('bio-seq/src/kmer.rs', "let bs: &Bs = &self.bs.view_bits()[0..(K * A::BITS as usize)];", "let bs: &Bs = &self.bs.view_bits()[A::BITS as usize..(K * A::BITS as usize)];", 'T', ['kmer.deref']),
 ('bio-seq/src/codec/iupac.rs', "        self & rhs == rhs\n", "        self & rhs == self\n", 'T', ['iupac.contains']),
 ('bio-seq/src/translation/standard.rs', "assert!(codon.len() == 3,", "assert!(codon.len() >= 3,", 'R', ['translation.to_amino']),
 ('bio-seq/src/seq.rs', "        self.bv.reverse();\n        for chunk in self.bv.rchunks_exact_mut(A::BITS as usize) {", "        for chunk in self.bv.rchunks_exact_mut(A::BITS as usize) {", 'T', ['seq.rev']),
 ('bio-seq/src/seq.rs', "                bc.comp();\n                base.store(bc.to_bits() as usize);", "                base.store(bc.to_bits() as usize);", 'T', ['seq.comp']),
 ('bio-seq/src/seq.rs', "                bc.unmask();", "                bc.mask();", 'T', ['seq.mask']),
 ('bio-seq/src/lib.rs', "        self.comp();\n        self.rev();", "        self.rev();", 'T', ['lib.wrappers']),
 ('bio-seq/src/lib.rs', "        let mut owned = self.to_owned();\n        owned.unmask();", "        let mut owned = self.to_owned();\n        owned.mask();", 'T', ['lib.wrappers']),
 ('bio-seq/src/kmer/integral64.rs', "        Self::BaN::new([self])\n    }\n\n    fn from_bitslice(bs: &Bs) -> Self {\n        debug_assert!(", "        Self::BaN::new([self >> 1])\n    }\n\n    fn from_bitslice(bs: &Bs) -> Self {\n        debug_assert!(", 'T', ['kmer.storage']),

 ('bio-seq/src/translation.rs', "                inverse_table.insert(*amino, None);", "                inverse_table.insert(*amino, Some(codon.clone()));", 'T', ['translation.codontable']),
 ('bio-seq/src/translation.rs', "            if inverse_table.contains_key(amino) {", "            if !inverse_table.contains_key(amino) {", 'T', ['translation.codontable']),
 ('bio-seq/src/translation.rs', "                None => Err(TranslationError::AmbiguousCodon(amino)),", "                None => Err(TranslationError::InvalidAmino(amino)),", 'T', ['translation.lookup']),
 ('bio-seq/src/translation.rs', "            Err(TranslationError::InvalidAmino(amino))", "            Err(TranslationError::AmbiguousCodon(amino))", 'T', ['translation.lookup']),
 ('bio-seq/src/translation.rs', ".ok_or_else(|| TranslationError::InvalidCodon(codon.into()))", ".ok_or_else(|| TranslationError::AmbiguousTranslation(codon.into()))", 'T', ['translation.try_to_amino']),

 ('bio-seq/src/translation/standard.rs', '(iupac!("TGG").into(), Amino::W),', '(iupac!("TGR").into(), Amino::W),', 'T', ['std.data_fwd']),
 ('bio-seq/src/translation/standard.rs', '(iupac!("ATH").into(), Amino::I),', '(iupac!("ATY").into(), Amino::I),', 'T', ['std.data_rev']),
 ('bio-seq/src/translation/standard.rs', '(iupac!("TRA").into(), Amino::X),', '(iupac!("TRA").into(), Amino::W),', 'T', ['std.data_fwd']),
 ('bio-seq/src/translation/standard.rs', 'if codon.len() != 3 {', 'if codon.len() < 3 {', 'T', ['std.code']),
 ('bio-seq/src/translation/standard.rs', '            if iupac_set.contains(codon) {', '            if !iupac_set.contains(codon) {', 'T', ['std.code']),
 ('bio-seq/src/translation/standard.rs', '            Some(Some(codon)) => Ok(codon.clone()),\n            None | Some(None)', '            Some(Some(codon)) | Some(None) => Err(TranslationError::AmbiguousCodon(amino)),\n            None', 'T', ['std.reverse']),
]
res = []
ONLY = [int(x) for x in os.environ.get('ONLY', '').split(',') if x]
for k, (f, old, new, mode, roots) in enumerate(M):
    if ONLY and k not in ONLY:
        continue
    p = os.path.join(W, f)
    src = open(p).read()
    if src.count(old) != 1:
        res.append((k, f, 'PATTERN-NOT-UNIQUE(%d)' % src.count(old)))
        print(res[-1]); continue
    open(p, 'w').write(src.replace(old, new))
    try:
        r = verus_run.build_and_verify(W, os.path.join(ROOT, 'work', 'mut'), 'mut%d' % k, mode, roots, canaries=False)
        res.append((k, f.split('/')[-1], old.strip().split('\n')[0][:50], mode, roots, r.status, [x['obligation'].split('::')[-1][:70] for x in r.failed][:2], r.reason[:120]))
    finally:
        open(p, 'w').write(src)
    print(res[-1], flush=True)
killed = sum(1 for r in res if len(r) > 5 and r[5] == 'failed')
print('mutants: %d, killed by a Verus obligation: %d, undecided: %d, SURVIVED: %d' % (len(res), killed, sum(1 for r in res if len(r) > 5 and r[5] == 'undecided'), sum(1 for r in res if len(r) > 5 and r[5] == 'ok')))
