#!/usr/bin/env python3
"""tools/save_seed.py <worktree-id> <seed-name> <property> <caught_by> <needs...>  : copy a confirmed seeded change into /verif/seeded/<seed-name>/"""
import json, os, shutil, sys, subprocess
wid, name, prop, caught = sys.argv[1:5]
needs = ' '.join(sys.argv[5:])
src = '/tmp/mut_%s_out' % wid
dst = '/verif/seeded/%s' % name
os.makedirs(dst, exist_ok=True)
diff = open(os.path.join(src, 'patch.diff')).read()
open(os.path.join(dst, 'patch.diff'), 'w').write(diff)
shutil.copy(os.path.join(src, 'demo.rs'), os.path.join(dst, 'demo.rs'))
if os.path.exists(os.path.join(src, 'notes.md')):
    shutil.copy(os.path.join(src, 'notes.md'), os.path.join(dst, 'notes.md'))
meta = dict(property=prop, breaks=prop, needs_to_manifest=needs, caught_by=caught,
            produced_by='independent sub-agent given only the property text and a scratch worktree of /repo',
            confirmed=['cargo test --workspace --offline green with the change (92+1+28 tests)',
                       'demo.rs as bio-seq/tests/demo.rs: fails with the change, passes without (cargo test --offline --features translation,extra_codecs --test demo)',
                       'git -C /repo apply patch.diff; ./check %s --tier quick -> exit 1 with VIOLATION; git -C /repo checkout -- .' % prop],
            base_commit=subprocess.run(['git', '-C', '/repo', 'rev-parse', '--short', 'HEAD'], capture_output=True, text=True).stdout.strip())
json.dump(meta, open(os.path.join(dst, 'meta.json'), 'w'), indent=1)
print('saved', dst)
