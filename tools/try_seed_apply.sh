#!/bin/bash
# usage: tools/try_seed_apply.sh <workdir-id> <property> [more properties]
# step 2 of try_seed.sh only: apply the patch to /repo, run the checks (evidence redirected), restore /repo.
id=$1; shift
cp /tmp/mut_${id}_out/patch.diff /tmp/seed_$id.diff
cd /verif
git -C /repo apply /tmp/seed_$id.diff || { echo "patch does not apply to /repo"; exit 8; }
export VERIF_EVIDENCE_DIR=/verif/work/seed-evidence
for p in "$@"; do echo "--- ./check $p on seeded tree"; ./check $p 2>&1 | grep -E '^(VIOLATION|FAILED-OBLIGATION|OK|UNDECIDED|KNOWN)' | cut -c1-260 | head -8; echo "exit ${PIPESTATUS[0]}"; done
git -C /repo checkout -- . && git -C /repo status --short | head -3
