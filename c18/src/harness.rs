//! C18, k-mer half: complete Kani harnesses (loop-free over the full storage domain) through the REAL
//! serde derive expansion of `Kmer` and the real bincode 1.3 encoder/decoder.
use bio_seq::prelude::*;
use bio_seq::codec::{masked, text};
use core::marker::PhantomData;

macro_rules! kmer_bincode {
    ($name:ident, $a:ty, $k:expr, $s:ty) => {
        #[kani::proof]
        #[kani::unwind(40)]
        fn $name() {
            let v: $s = kani::any();
            let k: Kmer<$a, $k, $s> = Kmer { _p: PhantomData, bs: v };
            let bytes = match bincode::serialize(&k) { Ok(b) => b, Err(_) => { assert!(false, "serialize refuses a k-mer"); return; } };
            assert!(bytes.len() == core::mem::size_of::<$s>(), "binary image is the storage word");
            let back: Kmer<$a, $k, $s> = match bincode::deserialize(&bytes) { Ok(b) => b, Err(_) => { assert!(false, "deserialize refuses a serialized k-mer"); return; } };
            assert!(back.bs == v, "round trip preserves the packed integer");
            assert!(back == k, "round trip yields an equal k-mer");
            kani::cover!(v != 0, "reachable with a non-zero k-mer");
        }
    };
}
kmer_bincode!(kmer_bincode_dna_k1, Dna, 1, usize);
kmer_bincode!(kmer_bincode_dna_k8, Dna, 8, usize);
kmer_bincode!(kmer_bincode_dna_k17, Dna, 17, usize);
kmer_bincode!(kmer_bincode_dna_k32, Dna, 32, usize);
kmer_bincode!(kmer_bincode_iupac_k16, Iupac, 16, usize);
kmer_bincode!(kmer_bincode_dna_k32_u64, Dna, 32, u64);
kmer_bincode!(kmer_bincode_dna_k64_u128, Dna, 64, u128);
kmer_bincode!(kmer_bincode_iupac_k32_u128, Iupac, 32, u128);

// thorough tier: further instantiations (every stored codec width, odd K, small K on wide storage)
kmer_bincode!(kmer_bincode_amino_k10, Amino, 10, usize);
kmer_bincode!(kmer_bincode_text_k8, text::Dna, 8, usize);
kmer_bincode!(kmer_bincode_masked_iupac_k12, masked::Iupac, 12, usize);
kmer_bincode!(kmer_bincode_dna_k5_u64, Dna, 5, u64);
kmer_bincode!(kmer_bincode_amino_k21_u128, Amino, 21, u128);
kmer_bincode!(kmer_bincode_dna_k33_u128, Dna, 33, u128);
