//! C18 (level `other`).  k-mer half: `harness.rs`, complete Kani proofs through the real serde derive
//! expansion and the real bincode encoder.  Sequence half and the text format: BOUNDED native stand-in
//! below - the serializer of an owned sequence is bitvec's serde implementation plus bincode / serde_json,
//! external generic visitor code that neither verifier reaches (Kani: no verdict in 25 minutes for two
//! symbolic words; serde_json: no verdict in 15 minutes for one symbolic k-mer).
#[cfg(kani)]
mod harness;
#[path = "../../witness/src/rng.rs"]
mod rng;

use bio_seq::codec::{degenerate, masked, text};
use bio_seq::prelude::*;
use bitvec::prelude::{BitSlice, BitVec, Lsb0};
use core::marker::PhantomData;
use std::hash::{Hash, Hasher};

fn h<T: Hash + ?Sized>(t: &T) -> u64 {
    let mut s = std::collections::hash_map::DefaultHasher::new();
    t.hash(&mut s);
    s.finish()
}

pub struct Out {
    pub n: usize,
    pub fails: Vec<String>,
}
impl Out {
    fn fail(&mut self, s: String) {
        if self.fails.len() < 20 {
            self.fails.push(s);
        }
    }
    /// one owned sequence through both formats
    fn seq<C: Codec>(&mut self, what: &str, s: &Seq<C>) {
        self.n += 1;
        let same = |b: &Seq<C>| b == s && s == b && b.len() == s.len() && b.to_string() == s.to_string() && h(b) == h(s) && (0..s.len()).all(|i| b.nth(i) == s.nth(i));
        match bincode::serialize(s) {
            Ok(bytes) => {
                match bincode::deserialize::<Seq<C>>(&bytes) {
                    Ok(b) => if !same(&b) { self.fail(format!("bincode {} {}: {} came back as {}", what, core::any::type_name::<C>(), s, b)) },
                    Err(e) => self.fail(format!("bincode {} {}: {} does not deserialize: {}", what, core::any::type_name::<C>(), s, e)),
                }
                // the same image through a reader (no borrowing from the input buffer), and written through a writer
                match bincode::deserialize_from::<_, Seq<C>>(std::io::Cursor::new(bytes.clone())) {
                    Ok(b) => if !same(&b) { self.fail(format!("bincode reader {} {}: {} came back as {}", what, core::any::type_name::<C>(), s, b)) },
                    Err(e) => self.fail(format!("bincode reader {} {}: {} does not deserialize: {}", what, core::any::type_name::<C>(), s, e)),
                }
                let mut w: Vec<u8> = vec![];
                if bincode::serialize_into(&mut w, s).is_err() || w != bytes { self.fail(format!("bincode serialize_into {} {}: image differs from serialize", what, core::any::type_name::<C>())); }
            }
            Err(e) => self.fail(format!("bincode {} {}: {} does not serialize: {}", what, core::any::type_name::<C>(), s, e)),
        }
        match serde_json::to_string(s) {
            Ok(t) => {
                match serde_json::from_str::<Seq<C>>(&t) {
                    Ok(b) => if !same(&b) { self.fail(format!("json {} {}: {} came back as {}", what, core::any::type_name::<C>(), s, b)) },
                    Err(e) => self.fail(format!("json {} {}: {} does not deserialize: {}", what, core::any::type_name::<C>(), s, e)),
                }
                let via_reader = serde_json::from_reader::<_, Seq<C>>(std::io::Cursor::new(t.clone().into_bytes()));
                let via_slice = serde_json::from_slice::<Seq<C>>(t.as_bytes());
                let via_value = serde_json::to_value(s).ok().and_then(|v| serde_json::from_value::<Seq<C>>(v).ok());
                if !(via_reader.as_ref().map_or(false, |b| same(b)) && via_slice.as_ref().map_or(false, |b| same(b)) && via_value.as_ref().map_or(false, |b| same(b))) {
                    self.fail(format!("json (reader / slice / value) {} {}: {} does not round trip: reader={:?} slice={:?} value={:?}", what, core::any::type_name::<C>(), s,
                        via_reader.map(|b| b.to_string()).map_err(|e| e.to_string()), via_slice.map(|b| b.to_string()).map_err(|e| e.to_string()), via_value.map(|b| b.to_string())));
                }
                match serde_json::to_string_pretty(s).ok().and_then(|p| serde_json::from_str::<Seq<C>>(&p).ok()) {
                    Some(b) if same(&b) => {}
                    _ => self.fail(format!("json pretty {} {}: {} does not round trip", what, core::any::type_name::<C>(), s)),
                }
            }
            Err(e) => self.fail(format!("json {} {}: {} does not serialize: {}", what, core::any::type_name::<C>(), s, e)),
        }
    }
}

fn random_seq<C: Codec>(r: &mut rng::Rng, n: usize) -> Seq<C> {
    let items: Vec<C> = C::items().collect();
    let mut s = Seq::<C>::new();
    for _ in 0..n {
        s.push(items[r.below(items.len())]);
    }
    s
}

/// histories named by the property: parsed, sliced-and-copied, edited, reversed
fn histories<C: Codec>(o: &mut Out, r: &mut rng::Rng, lens: &[usize]) {
    for &n in lens {
        let base = random_seq::<C>(r, n);
        // parsed from its own text
        let parsed = Seq::<C>::try_from(base.to_string().as_str()).unwrap_or_else(|_| base.clone());
        o.seq("parsed", &parsed);
        // sliced and copied at an arbitrary offset (several forms)
        if n > 0 {
            let a = r.below(n);
            let b = a + r.below(n - a + 1);
            o.seq("slice.to_owned", &base[a..b].to_owned());
            let c: Seq<C> = (&base[a..b]).into();
            o.seq("Seq::from(slice)", &c);
            let mut e = base.clone();
            e.truncate(b);
            o.seq("truncated", &e);
            e.remove(..a);
            o.seq("truncated+removed", &e);
        }
        // edited
        let mut e = base.clone();
        let m = 1 + r.below(9);
        let extra = random_seq::<C>(r, m);
        e.append(&extra);
        o.seq("appended", &e);
        e.prepend(&extra[..extra.len() / 2]);
        o.seq("prepended", &e);
        let at = r.below(e.len() + 1);
        e.insert(at, &extra);
        o.seq("inserted", &e);
        let a = r.below(e.len());
        e.remove(a..a + r.below(e.len() - a + 1));
        o.seq("removed", &e);
        e.push(C::items().next().unwrap());
        o.seq("pushed", &e);
        e.clear();
        o.seq("cleared", &e);
        e.extend(base.iter());
        o.seq("extended", &e);
        // reversed (in place and copying)
        let mut v = base.clone();
        v.rev();
        o.seq("rev", &v);
        o.seq("to_rev", &base.to_rev());
        if n > 2 {
            o.seq("slice.to_rev", &base[1..n - 1].to_rev());
        }
        // rebuilt from a raw image
        if let Some(x) = Seq::<C>::from_raw(n, base.into_raw()) {
            o.seq("from_raw", &x);
        }
        // owned sequences whose bit vector does NOT start at bit 0 of its first word: the public conversions from an
        // unaligned bit slice / bit vector, and the owned set operations with such a left operand
        if n >= 3 {
            let w = C::BITS as usize;
            let bits = BitSlice::<usize, Lsb0>::from_slice(base.into_raw());
            let a = 1 + r.below(n - 1);
            let b = a + r.below(n - a + 1);
            let u: Seq<C> = Seq::from(&bits[a * w..b * w]);
            o.seq("from(&unaligned bit slice)", &u);
            let bv: BitVec<usize, Lsb0> = bits[a * w..b * w].to_bitvec();
            let v: Seq<C> = Seq::from(bv);
            o.seq("from(bit vector copied from an unaligned slice)", &v);
            let u2: Seq<C> = Seq::from(&bits[a * w..b * w]);
            let same = u2.clone();
            o.seq("unaligned.bit_and(itself)", &u2.bit_and(same));
            let u3: Seq<C> = Seq::from(&bits[a * w..b * w]);
            let same = u3.clone();
            o.seq("unaligned.bit_or(itself)", &u3.bit_or(same));
            let mut e = Seq::<C>::from(&bits[a * w..b * w]);
            e.push(C::items().next().unwrap());
            o.seq("unaligned, then pushed", &e);
        }
    }
}

fn kmer_case<C: Codec, const K: usize, S>(o: &mut Out, v: S)
where
    S: bio_seq::kmer::KmerStorage + serde::Serialize + for<'d> serde::Deserialize<'d> + core::fmt::Debug,
    Kmer<C, K, S>: serde::Serialize + for<'d> serde::Deserialize<'d> + PartialEq + Hash + core::fmt::Display,
{
    o.n += 1;
    let k: Kmer<C, K, S> = Kmer { _p: PhantomData, bs: v };
    let same = |b: &Kmer<C, K, S>| b == &k && h(b) == h(&k) && b.to_string() == k.to_string() && b.len() == k.len();
    match bincode::serialize(&k).ok().and_then(|b| bincode::deserialize::<Kmer<C, K, S>>(&b).ok()) {
        Some(b) if same(&b) => {}
        other => o.fail(format!("bincode k-mer {} K={} {}: got {:?}", core::any::type_name::<C>(), K, k, other.map(|x| x.to_string()))),
    }
    match serde_json::to_string(&k).ok().and_then(|t| serde_json::from_str::<Kmer<C, K, S>>(&t).ok()) {
        Some(b) if same(&b) => {}
        other => o.fail(format!("json k-mer {} K={} {}: got {:?}", core::any::type_name::<C>(), K, k, other.map(|x| x.to_string()))),
    }    let rd = bincode::serialize(&k).ok().and_then(|b| bincode::deserialize_from::<_, Kmer<C, K, S>>(std::io::Cursor::new(b)).ok());
    let jr = serde_json::to_vec(&k).ok().and_then(|b| serde_json::from_reader::<_, Kmer<C, K, S>>(std::io::Cursor::new(b)).ok());
    // serde_json's in-memory `Value` cannot hold a 128-bit integer (a limitation of that crate, not of bio-seq): the value
    // route is exercised for word-sized storage only
    let value_route = core::mem::size_of::<S>() <= 8;
    let jv = if value_route { serde_json::to_value(&k).ok().and_then(|v| serde_json::from_value::<Kmer<C, K, S>>(v).ok()) } else { None };
    if !(rd.as_ref().map_or(false, |b| same(b)) && jr.as_ref().map_or(false, |b| same(b)) && (!value_route || jv.as_ref().map_or(false, |b| same(b)))) {
        o.fail(format!("k-mer through a reader / value {} K={} {}: bincode reader={:?} json reader={:?} json value={:?}", core::any::type_name::<C>(), K, k, rd.map(|x| x.to_string()), jr.map(|x| x.to_string()), jv.map(|x| x.to_string())));
    }
}


fn kmers(o: &mut Out, r: &mut rng::Rng, rounds: usize) {
    for i in 0..rounds {
        let x = r.next();
        let y = r.next();
        // boundary values first, then random canonical values (below 2^(K*BITS))
        let w = match i { 0 => 0u64, 1 => u64::MAX, 2 => 1u64 << 63, 3 => (1u64 << 53) + 1, _ => x };
        kmer_case::<Dna, 1, usize>(o, (w & 0b11) as usize);
        kmer_case::<Dna, 8, usize>(o, (w & 0xFFFF) as usize);
        kmer_case::<Dna, 27, usize>(o, (w & ((1 << 54) - 1)) as usize);
        // bit widths just above 32 bits and not byte aligned (33..39 bits), every storage type
        kmer_case::<Dna, 17, usize>(o, (w & ((1 << 34) - 1)) as usize);
        kmer_case::<Dna, 18, u64>(o, w & ((1 << 36) - 1));
        kmer_case::<Dna, 19, u128>(o, (w & ((1 << 38) - 1)) as u128);
        kmer_case::<Iupac, 9, usize>(o, (w & ((1 << 36) - 1)) as usize);
        kmer_case::<bio_seq::codec::masked::Iupac, 7, usize>(o, (w & ((1 << 35) - 1)) as usize);
        kmer_case::<Dna, 9, usize>(o, (w & ((1 << 18) - 1)) as usize);
        kmer_case::<Dna, 13, u64>(o, w & ((1 << 26) - 1));
        kmer_case::<Dna, 32, usize>(o, w as usize);
        kmer_case::<Dna, 32, u64>(o, w);
        kmer_case::<Iupac, 16, usize>(o, w as usize);
        kmer_case::<Iupac, 5, u64>(o, w & 0xFFFFF);
        kmer_case::<Dna, 64, u128>(o, ((w as u128) << 64) | y as u128);
        kmer_case::<Dna, 40, u128>(o, (((w as u128) << 64) | y as u128) & ((1u128 << 80) - 1));
        kmer_case::<Iupac, 32, u128>(o, ((y as u128) << 64) | w as u128);
        // amino k-mers are built from symbols (not every 6-bit pattern is an amino acid)
        let s = random_seq::<Amino>(r, 21);
        o.n += 1;
        let k10: Kmer<Amino, 10> = Kmer::try_from(&s[..10]).unwrap();
        let ok10 = bincode::serialize(&k10).ok().and_then(|b| bincode::deserialize::<Kmer<Amino, 10>>(&b).ok()).map_or(false, |b| b == k10 && b.to_string() == k10.to_string() && h(&b) == h(&k10))
            && serde_json::to_string(&k10).ok().and_then(|t| serde_json::from_str::<Kmer<Amino, 10>>(&t).ok()).map_or(false, |b| b == k10 && b.to_string() == k10.to_string() && h(&b) == h(&k10));
        if !ok10 { o.fail(format!("amino 10-mer {} does not round trip", k10)); }
        let k21: Kmer<Amino, 21, u128> = Kmer::try_from(&s[..]).unwrap();
        let ok21 = bincode::serialize(&k21).ok().and_then(|b| bincode::deserialize::<Kmer<Amino, 21, u128>>(&b).ok()).map_or(false, |b| b == k21 && b.to_string() == k21.to_string() && h(&b) == h(&k21))
            && serde_json::to_string(&k21).ok().and_then(|t| serde_json::from_str::<Kmer<Amino, 21, u128>>(&t).ok()).map_or(false, |b| b == k21 && b.to_string() == k21.to_string() && h(&b) == h(&k21));
        if !ok21 { o.fail(format!("amino 21-mer (u128) {} does not round trip", k21)); }
    }
}

/// `replay <harness> <hex bytes of the storage word, little endian>`: the Kani counterexample on the native build
fn replay(hname: &str, hex: &str) -> bool {
    let bytes: Vec<u8> = (0..hex.len() / 2).map(|i| u8::from_str_radix(&hex[2 * i..2 * i + 2], 16).unwrap()).collect();
    let mut w = [0u8; 16];
    w[..bytes.len().min(16)].copy_from_slice(&bytes[..bytes.len().min(16)]);
    let v = u128::from_le_bytes(w);
    let mut o = Out { n: 0, fails: vec![] };
    match hname {
        "kmer_bincode_dna_k1" => kmer_case::<Dna, 1, usize>(&mut o, v as usize),
        "kmer_bincode_dna_k8" => kmer_case::<Dna, 8, usize>(&mut o, v as usize),
        "kmer_bincode_dna_k17" => kmer_case::<Dna, 17, usize>(&mut o, v as usize),
        "kmer_bincode_dna_k32" => kmer_case::<Dna, 32, usize>(&mut o, v as usize),
        "kmer_bincode_iupac_k16" => kmer_case::<Iupac, 16, usize>(&mut o, v as usize),
        "kmer_bincode_dna_k32_u64" => kmer_case::<Dna, 32, u64>(&mut o, v as u64),
        "kmer_bincode_dna_k64_u128" => kmer_case::<Dna, 64, u128>(&mut o, v),
        "kmer_bincode_iupac_k32_u128" => kmer_case::<Iupac, 32, u128>(&mut o, v),
        "kmer_bincode_text_k8" => kmer_case::<text::Dna, 8, usize>(&mut o, v as usize),
        "kmer_bincode_masked_iupac_k12" => kmer_case::<masked::Iupac, 12, usize>(&mut o, v as usize),
        "kmer_bincode_dna_k5_u64" => kmer_case::<Dna, 5, u64>(&mut o, v as u64),
        "kmer_bincode_dna_k33_u128" => kmer_case::<Dna, 33, u128>(&mut o, v),
        _ => { println!("{{\"error\":\"unknown harness\"}}"); return false; }
    }
    let f: Vec<String> = o.fails.iter().map(|x| format!("{:?}", x)).collect();
    println!("{{\"failed\":{},\"failures\":[{}]}}", !o.fails.is_empty(), f.join(","));
    !o.fails.is_empty()
}

fn main() {
    let args: Vec<String> = std::env::args().collect();
    if args.len() >= 4 && args[1] == "replay" {
        let r = std::panic::catch_unwind(|| replay(&args[2], &args[3]));
        if r.is_err() { println!("{{\"panicked\":true}}"); }
        return;
    }
    let seed: u64 = std::env::var("VERIF_SEED").ok().and_then(|s| s.parse().ok()).unwrap_or(1);
    let thorough = std::env::args().any(|a| a == "thorough");
    let mut r = rng::Rng::new(seed);
    let mut o = Out { n: 0, fails: vec![] };
    let mut lens: Vec<usize> = (0..=70).collect();
    lens.extend([127, 128, 129, 191, 192, 193, 255, 256, 257, 1000]);
    if thorough {
        lens.extend((0..200).map(|i| 1 + (i * 37) % 700));
        lens.extend([4095, 4096, 4097, 10_000]);
    }
    histories::<Dna>(&mut o, &mut r, &lens);
    histories::<Iupac>(&mut o, &mut r, &lens);
    histories::<Amino>(&mut o, &mut r, &lens);
    histories::<text::Dna>(&mut o, &mut r, &lens);
    histories::<masked::Iupac>(&mut o, &mut r, &lens);
    histories::<masked::Dna>(&mut o, &mut r, &lens);
    histories::<degenerate::Dna>(&mut o, &mut r, &lens);
    kmers(&mut o, &mut r, if thorough { 4000 } else { 400 });
    let f: Vec<String> = o.fails.iter().map(|x| format!("{:?}", x)).collect();
    println!("{{\"cases\":{},\"failures\":[{}]}}", o.n, f.join(","));
}
