#!/bin/sh
# Offline setup: nothing to fetch.  Pre-builds the native witness crate and the Kani harness crate
# against /repo so the first check is not slowed down by dependency compilation.  Failures here are
# not fatal: every check rebuilds what it needs from /repo's working tree.
cd "$(dirname "$0")"
mkdir -p work evidence
export CARGO_NET_OFFLINE=true
cp /repo/Cargo.lock witness/Cargo.lock 2>/dev/null
cp /repo/Cargo.lock kani/Cargo.lock 2>/dev/null
(cd witness && CARGO_TARGET_DIR=../work/target-witness-debug CARGO_PROFILE_DEV_DEBUG_ASSERTIONS=true CARGO_PROFILE_DEV_OVERFLOW_CHECKS=true cargo build --offline -q) || echo "setup: witness pre-build failed (checks will retry)"
(cd witness && CARGO_TARGET_DIR=../work/target-witness-release CARGO_PROFILE_DEV_DEBUG_ASSERTIONS=false CARGO_PROFILE_DEV_OVERFLOW_CHECKS=false cargo build --offline -q) || echo "setup: witness pre-build (release-like) failed (checks will retry)"
verus --version >/dev/null 2>&1 || echo "setup: verus not on PATH"
cargo kani --version >/dev/null 2>&1 || echo "setup: cargo kani not available"
exit 0
